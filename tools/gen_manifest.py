#!/usr/bin/env python3
"""Regenerates /verif/MANIFEST.json from the property modules present under pbt/props/."""
import json
import os

V = os.path.dirname(os.path.dirname(os.path.abspath(__file__)))

META = {
    "C01": ("model-based PBT: generated mutation histories + interleaved open iterators vs a Python set, all 8 pattern shapes after every step",
            "§4 C01"),
    "C02": ("model-based PBT: generated dataset histories vs dict[name->set]; all views/quads/membership/union compared after every step",
            "§4 C02"),
    "C03": ("round-trip PBT: generated graphs x 8 syntaxes x options, compared by an independent backtracking isomorphism oracle; step-limit termination detector",
            "§4 C03"),
    "C04": ("differential PBT: generated query ASTs x data vs an independent bottom-up SPARQL algebra evaluator (multisets)",
            "§4 C04"),
    "C05": ("differential PBT/fuzzing: independent randomised writers for NT/NQ/Turtle/TriG/RDF-XML/JSON-LD -> rdflib parsers; rdflib NT/NQ output -> strict W3C-grammar reader; expat/json well-formedness",
            "§4 C05"),
    "C06": ("round-trip PBT: generated datasets x quad syntaxes with dataset isomorphism oracle; RDF Patch diff/apply metamorphic check",
            "§4 C06"),
    "C07": ("PBT of algebraic laws over generated term pairs/triples: equivalence, hash, cross-kind order, pickle/copy, n3 read-back",
            "§4 C07"),
    "C08": ("differential PBT: generated modifier/aggregate queries vs reference evaluator + validity predicates (order, slice, distinct)",
            "§4 C08"),
    "C09": ("PBT with independent XSD lexical grammars/value maps: Python value -> Literal -> value, lexical -> value, normalisation idempotence, eq",
            "§4 C09"),
    "C10": ("differential PBT: generated update requests x datasets x configurations vs a reference SPARQL Update dataset transformer",
            "§4 C10"),
    "C11": ("differential PBT: generated path expressions x graphs (plain, Dataset union, aggregate) x 4 end bindings (API and SPARQL) vs set-algebra reference; duplicates, termination and re-evaluation of held path / query objects after a change checked",
            "§4 C11"),
    "C12": ("PBT over parse histories: old content preserved, new content = document with fresh injective blank nodes (isomorphism oracle)",
            "§4 C12"),
    "C13": ("PBT over sequences of read-only calls (incl. held path and prepared query objects) on Graph / Dataset / ConjunctiveGraph: store snapshot invariant after each call + repeatability of each answer",
            "§4 C13"),
    "C14": ("PBT over symmetric blank-node families (one and two relations), relabelled copies and near-miss pairs vs an independent backtracking bijection search; skolem round trip of up to 400 blank nodes checked by the nodes' own labels",
            "§4 C14"),
    "C15": ("metamorphic PBT: query vs semantics-preserving rewrite (order, association, renaming, spelling), initBindings vs VALUES, prepared-query reuse incl. interleaved evaluations, store back ends incl. quads behind the auditable store",
            "§4 C15"),
    "C16": ("round-trip PBT over generated result tables x JSON/XML/TSV/CSV with independent stdlib readers and a W3C TSV writer",
            "§4 C16"),
    "C17": ("model-based PBT: histories of bind/qname/parse/serialise; bijection + expand-back invariants after every step",
            "§4 C17"),
    "C18": ("model-based PBT + exhaustive enumeration of short histories: auditable store vs snapshot/model, owned two-wrapper interleavings",
            "§4 C18"),
    "C19": ("model-based PBT: generated list-operation histories vs a Python list + chain well-formedness invariant; broken chains under a step limit",
            "§4 C19"),
    "C20": ("model-based PBT over a loopback SPARQL endpoint: histories of store reads/writes vs local model + endpoint request log",
            "§4 C20"),
}

NOT_YET = "check not built yet in this session (planned; see DESIGN.md §4) — not claimed until it exists and is quiet on the unchanged tree"


def main():
    props = [json.loads(l) for l in open(os.path.join(V, "properties.jsonl"))]
    checks, na = [], []
    overrides = {}
    op = os.path.join(V, "tools", "manifest_overrides.json")
    if os.path.exists(op):
        overrides = json.load(open(op))
    for p in props:
        pid = p["id"]
        if pid in overrides.get("not_applicable", {}):
            na.append({"property_id": pid, "reason": overrides["not_applicable"][pid]})
            continue
        if not os.path.exists(os.path.join(V, "pbt", "props", pid.lower() + ".py")):
            na.append({"property_id": pid, "reason": NOT_YET})
            continue
        tech, ref = META[pid]
        checks.append({
            "property_id": pid,
            "quick_cmd": f"./check {pid} --tier quick",
            "thorough_cmd": f"./check {pid} --tier thorough",
            "evidence_file": f"/verif/evidence/{pid}.json",
            "replay_cmd_template": f"./check {pid} --replay {{path}}",
            "engine": "pbt",
            "level_claimed": {
                "category": "exploration",
                "text": overrides.get("level_text", {}).get(pid, "Generated-input search against an explicit oracle: the property held on every generated case of this run "
                        "(counts, non-triviality rule and samples in the evidence file); absence of violations outside the explored cases is not established."),
                "design_ref": ref,
            },
            "level_note": overrides.get("level_note", {}).get(pid, "Trusts the harness's own reference model/oracle (pbt/props, pbt/oracle) and CPython; imports rdflib from /repo's working tree (VERIF_REPO)."),
            "technique": tech,
        })
    man = {
        "version": 1,
        "setup_cmd": "./setup.sh",
        "hooks": {
            "guard": "RDFLIB_VERIF",
            "enable": "checks export RDFLIB_VERIF=1 and import rdflib from /repo's working tree via PYTHONPATH (no build step); no hook is currently needed in /repo",
            "baseline_off_cmd": "cd /repo && /venv/bin/python -m pytest -ra -q -p no:cacheprovider --timeout=900 --continue-on-collection-errors",
            "source_commits": [],
            "add_only": True,
        },
        "engines": [{"name": "pbt", "path": "pbt/", "serves_properties": [c["property_id"] for c in checks],
                     "kind_free_text": "Hypothesis 6.168 generators (seeded by VERIF_SEED, 16 shards) + own reference oracles, collect->bucket->ddmin-shrink, JSON replay files"}],
        "checks": checks,
        "not_applicable": na,
        "notes": "All checks: ./check <ID> [--tier quick|thorough] [--replay FILE]; VERIF_SEED selects the seed; VERIF_REPO (default /repo) the tree under test. "
                 "exit 0 held / 1 VIOLATION / 2 harness error. Known findings: known_findings.jsonl.",
    }
    with open(os.path.join(V, "MANIFEST.json"), "w") as f:
        json.dump(man, f, indent=1)
    print("checks:", [c["property_id"] for c in checks], "not_applicable:", [n["property_id"] for n in na])


if __name__ == "__main__":
    main()
