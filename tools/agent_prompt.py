#!/usr/bin/env python3
"""Prints the prompt given to a fresh sub-agent that seeds a property-breaking change (only the
property text and its scratch worktree; nothing about /verif)."""
import json, sys
pid, wt = sys.argv[1], sys.argv[2]
n = sys.argv[3] if len(sys.argv) > 3 else "2"
for l in open('/verif/properties.jsonl'):
    p = json.loads(l)
    if p['id'] == pid:
        break
print(f"""You are helping evaluate a verification effort for the Python library RDFLib. You have your own scratch git worktree of the RDFLib repository at {wt} (detached HEAD). Work ONLY inside {wt}; never touch /repo or /verif, and do not read anything under /verif.

Here is a semantic property of RDFLib that should hold:

  Title: {p['title']}
  Statement: {p['statement']}
  Quantified over: {p['quantifier']['text']}
  Relevant files: {', '.join(p['anchors']['files'])}

Your job: produce {n} DIFFERENT, independent, realistic source changes ("seeded bugs") to RDFLib under {wt}/rdflib that each BREAK this property while the code still imports and the existing test suite still passes. Each should look like a plausible mistake or a well-meant refactoring/optimisation a developer could make, and must need something SPECIFIC to manifest: a multi-step sequence of operations, an unusual input, a particular interleaving, a fault at a particular point, or two cooperating sites that each look fine alone. Do NOT make a change that ordinary use would expose at once (e.g. breaking every add()). Keep each change small (a few lines).

For each change k = 1..{n} deliver, in directory {wt}/seeded/{pid}-k/ :
  - patch.diff : output of `git diff` for that change alone relative to HEAD (must apply with `git apply` on a clean checkout of HEAD). Only files under rdflib/ may be touched.
  - demo.py : a small standalone Python program, run as `PYTHONPATH=<tree> /venv/bin/python demo.py`, that exits 0 and prints PASS on the unchanged tree, and exits 1 printing FAIL (with a short explanation) when the change is applied. It must demonstrate a violation of the property STATEMENT above (not merely a difference in behaviour).
  - meta.json : {{"property": "{pid}", "summary": "...what was changed...", "needs": "...what specific input/sequence/condition is needed to manifest...", "files": [...]}}

How to validate (you must do all of this yourself for each change, one change at a time, starting from a clean tree: `git -C {wt} checkout -- rdflib`):
  1. apply the change; run `cd {wt} && PYTHONPATH={wt} /venv/bin/python demo.py` -> must FAIL; on the clean tree it must PASS.
  2. with the change applied, run the relevant parts of the existing test suite and then the whole suite:
       cd {wt} && PYTHONPATH={wt} /venv/bin/python -m pytest -q -p no:cacheprovider --timeout=900 --continue-on-collection-errors -x -q test/<relevant dirs> rdflib/<relevant file> 
       cd {wt} && PYTHONPATH={wt} /venv/bin/python -m pytest -q -p no:cacheprovider --timeout=900 --continue-on-collection-errors -q 2>&1 | grep -E '^(FAILED|ERROR)' | sed 's/ - .*//' | sort > /tmp/fails-{pid}-k.txt
     The whole suite takes about 3 minutes. The sandbox has no network, so about 24-28 tests fail even on the unchanged tree (test_service*, jsonld test_onedotone tc034/te126/te127/tso05/tso08/tso09/tso11, infixowl, test_plugins, rdflib/__init__.py doctest, test_guess_format_for_parse_http_text_plain; a few others are flaky). The list of failures on the unchanged tree is in /tmp/baseline_failures.txt. Your change must not add any NEW failing test compared with that list (doctests in rdflib/*.py are part of the suite). If it does, choose a different change.
  (Create {wt}/seeded/conftest.py containing `collect_ignore_glob = ["*"]` first, so that pytest's doctest collection does not import your demo files.)
  3. leave the worktree clean at the end (`git -C {wt} checkout -- rdflib`), keeping only the untracked seeded/ directory.

Do not run more than one full-suite run at a time. Do not commit anything. When finished, reply with a short report: for each change, the one-line summary, what it needs to manifest, and the confirmation that demo fails/passes and that the suite shows no new failures (list any differences from the baseline list).""")
