#!/usr/bin/env python3
"""tools/mkmut.py <ID> <name> <file-relative-to-repo> — reads OLD and NEW from a JSON object on stdin
{"old": "...", "new": "...", "count": 1}; writes mutants/<ID>/<name>.patch (git-style diff against /repo working tree)."""
import difflib, json, os, sys
pid, name, rel = sys.argv[1:4]
d = json.load(sys.stdin)
src = open(os.path.join('/repo', rel)).read()
assert src.count(d['old']) >= 1, 'old text not found'
new = src.replace(d['old'], d['new'], d.get('count', 1))
diff = ''.join(difflib.unified_diff(src.splitlines(True), new.splitlines(True), 'a/' + rel, 'b/' + rel))
out = os.path.join(os.path.dirname(os.path.dirname(os.path.abspath(__file__))), 'mutants', pid)
os.makedirs(out, exist_ok=True)
open(os.path.join(out, name + '.patch'), 'w').write(diff)
print('wrote', os.path.join(out, name + '.patch'))
