#!/usr/bin/env python3
"""Regenerates the generated blocks of DESIGN.md (between <!-- BEGIN:name --> / <!-- END:name --> markers) from the committed state:
known_findings.jsonl (dispositions), seeded/*/meta.json (seeded changes and what caught them), mutants/* (sensitivity suite)."""
import glob
import json
import os
import re
import subprocess

V = os.path.dirname(os.path.dirname(os.path.abspath(__file__)))


def findings():
    rows = [json.loads(l) for l in open(os.path.join(V, "known_findings.jsonl")) if l.strip()]
    out = ["| Property | Id | Disposition | What failed (specific input / call site) |", "|---|---|---|---|"]
    for r in sorted(rows, key=lambda r: (r["property"], r["status"], r["id"])):
        what = r["what"].replace("|", "\\|").replace("\n", " ")
        what = re.sub(r"^fixed: property=C\d\d \w+ ", "", what)
        disp = ("repaired in /repo, commit `%s`" % r["commit"]) if r["status"] == "fixed" else "recorded as known finding (not repaired)"
        out.append(f"| {r['property']} | {r['id']} | {disp} | {what[:420]} |")
    nf = sum(1 for r in rows if r["status"] == "fixed")
    out.append("")
    out.append(f"{nf} findings repaired by `fix:` commits, {len(rows) - nf} recorded as known findings.")
    return "\n".join(out)


def seeded():
    out = ["| Seeded change | What it breaks (summary by the sub-agent) | Needs | Caught by `./check <ID>` quick tier |", "|---|---|---|---|"]
    for d in sorted(glob.glob(os.path.join(V, "seeded", "*"))):
        try:
            m = json.load(open(os.path.join(d, "meta.json")))
        except Exception:
            continue
        v = m.get("verified", {})
        caught = "**yes**" if v.get("caught_by_quick_check") else ("not counted: " + m.get("status", "missed")[:160])
        out.append(f"| {os.path.basename(d)} | {m.get('summary', '')[:260].replace('|', '/')} | {m.get('needs', '')[:200].replace('|', '/')} | {caught} |")
    return "\n".join(out)


def mutants():
    out = ["| Property | Mutants under `mutants/<ID>/` (each caught by the quick tier when applied to a scratch copy) |", "|---|---|"]
    for d in sorted(glob.glob(os.path.join(V, "mutants", "*"))):
        names = sorted(os.path.basename(p)[:-6] for p in glob.glob(os.path.join(d, "*.patch")))
        out.append(f"| {os.path.basename(d)} | {', '.join(names)} |")
    return "\n".join(out)


def fixes():
    log = subprocess.run(["git", "-C", "/repo", "log", "--format=%h %s", "--grep=^fix:"], capture_output=True, text=True).stdout.strip().splitlines()
    return "\n".join("* `%s` %s" % tuple(l.split(" ", 1)) for l in log[::-1]) + f"\n\n{len(log)} `fix:` commits."


def numbers():
    out = ["| ID | cases | distinct non-trivial | wall | sub-checks |", "|----|------:|---------------------:|-----:|-----------|"]
    for f in sorted(glob.glob(os.path.join(V, "evidence", "C??.json"))):
        e = json.load(open(f))
        c = e["coverage"]
        out.append("| %s | %s | %s | %d s | %s |" % (e["property_id"], c["evaluations"], c["distinct_nontrivial"], round(e["wall_s"]), ", ".join(sorted(c["per_subcheck"]))))
    return "\n".join(out)


def main():
    p = os.path.join(V, "DESIGN.md")
    s = open(p).read()
    for name, fn in (("findings", findings), ("seeded", seeded), ("mutants", mutants), ("fixes", fixes), ("numbers", numbers)):
        a, b = f"<!-- BEGIN:{name} -->", f"<!-- END:{name} -->"
        if a in s and b in s:
            s = s[:s.index(a) + len(a)] + "\n" + fn() + "\n" + s[s.index(b):]
    open(p, "w").write(s)


if __name__ == "__main__":
    main()
