#!/bin/bash
# Runs the repository suite and prints the sorted list of failing test ids (for before/after comparison of fix: commits).
REPO=${1:-/repo}
cd "$REPO" && /venv/bin/python -m pytest -q -p no:cacheprovider --timeout=900 --continue-on-collection-errors -q 2>&1 | grep -E '^(FAILED|ERROR)' | sed 's/ - .*//' | sort; git -C "$REPO" checkout -- test_reports 2>/dev/null
