#!/usr/bin/env python3
"""tools/rebase_seeded.py <seeded-dir> <file-relative-to-repo> — a seeded change whose patch no longer applies after later repairs of
/repo is re-stated against the current tree: reads {"old": ..., "new": ..., "count": 1} (or a list of such edits, possibly with a
"file" each) from stdin, keeps the delivered patch as patch.orig.diff and writes the new patch.diff."""
import difflib, json, os, sys
d, rel = sys.argv[1], sys.argv[2]
edits = json.load(sys.stdin)
if isinstance(edits, dict):
    edits = [edits]
by_file = {}
for e in edits:
    by_file.setdefault(e.get("file", rel), []).append(e)
out = ""
for f, es in by_file.items():
    src = open(os.path.join('/repo', f)).read()
    new = src
    for e in es:
        assert new.count(e['old']) >= 1, ('old text not found', f, e['old'][:60])
        new = new.replace(e['old'], e['new'], e.get('count', 1))
    out += ''.join(difflib.unified_diff(src.splitlines(True), new.splitlines(True), 'a/' + f, 'b/' + f))
p = os.path.join(d, 'patch.diff')
if not os.path.exists(os.path.join(d, 'patch.orig.diff')):
    os.rename(p, os.path.join(d, 'patch.orig.diff'))
open(p, 'w').write(out)
print('rebased', d)
