#!/usr/bin/env python3
"""summarise evidence/replays/<ID>/*.json: one line per coarse bucket with the smallest case"""
import json, glob, sys
pid = sys.argv[1]; depth = int(sys.argv[2]) if len(sys.argv) > 2 else 3; width = int(sys.argv[3]) if len(sys.argv) > 3 else 300
seen = {}
for f in glob.glob(f'/verif/evidence/replays/{pid}/*.json'):
    r = json.load(open(f)); b = tuple(r['bucket'].split('|')[:depth])
    sz = len(json.dumps(r['case']))
    if b not in seen or sz < seen[b][0]: seen[b] = (sz, r, f)
for b, (sz, r, f) in sorted(seen.items()):
    print('|'.join(b), ' ', f.split('/')[-1])
    if width: print('    case:', json.dumps(r['case'])[:width]); d = r['detail']; i = d.find('lost='); print('    ', (d[i:] if i >= 0 else d)[:width].replace('\n', ' // '))
