#!/bin/bash
# Offline setup: make sure Hypothesis is importable in /venv; install jsonschema (evidence validation) and atheris beside the checks.
set -u
cd "$(dirname "$0")"
/venv/bin/python -c "import hypothesis" 2>/dev/null || /venv/bin/pip install -q --no-index --find-links /opt/veriftools/wheels hypothesis || exit 1
mkdir -p .deps evidence
/venv/bin/python -c "import sys; sys.path.insert(0,'.deps'); import jsonschema" 2>/dev/null || \
  /venv/bin/pip install -q --no-index --find-links /opt/veriftools/wheels --target .deps jsonschema >/dev/null 2>&1 || echo "setup: jsonschema unavailable, falling back to built-in evidence validation"
/venv/bin/python -c "import hypothesis, rdflib; print('setup ok: hypothesis', hypothesis.__version__, 'rdflib', rdflib.__version__)"
