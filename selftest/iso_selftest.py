"""Validates pbt.oracle.iso against brute force over all blank-node permutations on random small graphs (build-time self-test)."""
import itertools, random, sys
sys.path.insert(0, "/verif")
from pbt.oracle.iso import isomorphic
B = lambda x: ("b", x); U = lambda x: ("u", x)
def brute(t1, t2):
    b1 = sorted({x for t in t1 for x in t if x[0] == "b"}); b2 = sorted({x for t in t2 for x in t if x[0] == "b"})
    if len(b1) != len(b2) or len(t1) != len(t2): return False
    for perm in itertools.permutations(b2):
        m = dict(zip(b1, perm))
        if {tuple(m.get(x, x) for x in t) for t in t1} == t2: return True
    return False
rnd = random.Random(7)
n = 0
for it in range(20000):
    k = rnd.randint(0, 5)
    nodes = [B(f"n{i}") for i in range(k)] + [U("a"), U("b")]
    preds = [U("p"), U("q")]
    t1 = {(rnd.choice(nodes), rnd.choice(preds), rnd.choice(nodes)) for _ in range(rnd.randint(0, 7))}
    ren = dict(zip([B(f"n{i}") for i in range(k)], rnd.sample([B(f"m{i}") for i in range(k)], k)))
    t2 = {tuple(ren.get(x, x) for x in t) for t in t1}
    if rnd.random() < 0.6 and t2:
        # perturb
        t = rnd.choice(sorted(t2)); t2.discard(t)
        nodes2 = list(ren.values()) + [U("a"), U("b")]
        t2.add((rnd.choice(nodes2), rnd.choice(preds), rnd.choice(nodes2)))
    a, b = isomorphic(t1, t2), brute(t1, t2)
    assert a == b, (t1, t2, a, b)
    n += a
print("iso self-test ok; positives:", n)
