"""small strategy helpers"""
from hypothesis import strategies as st


def sized_lists(elem, lo, hi):
    """lists whose length is drawn (roughly uniformly) from lo..hi first, so long histories are common;
    still shrinks towards short lists."""
    return st.integers(lo, hi).flatmap(lambda n: st.lists(elem, min_size=n, max_size=n))
