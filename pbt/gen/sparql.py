"""SPARQL query ASTs (see pbt/oracle/sparqlref.py for the node shapes): Hypothesis strategies, renderer to SPARQL text, data pools."""
from __future__ import annotations

from hypothesis import strategies as st

from pbt.oracle import sparqlref as ref

XSD = ref.XSD
NODES = [["u", "urn:a"], ["u", "urn:b"], ["u", "urn:c"], ["b", "n1"]]
PREDS = [["u", "urn:p"], ["u", "urn:q"]]
LITS = [["l", "1", None, ref.INT], ["l", "2", None, ref.INT], ["l", "0", None, ref.INT], ["l", "1.5", None, ref.DEC], ["l", "x", None, None],
        ["l", "", None, None], ["l", "y", "en", None], ["l", "true", None, ref.BOOL], ["l", "3", None, ref.INT],
        # equal in value to LITS[0] but different terms (ties under ORDER BY / "=" that are not ties of identity)
        ["l", "1.0", None, ref.DEC], ["l", "1.0", None, ref.DBL]]
# constants for inline data only: a negative decimal and one with more digits than Python's default decimal context keeps (in query text
# written as a bare token they are read as a sign applied to a number)
NEG_DEC = ["l", "-1.5", None, ref.DEC]
LONG_NEG_DEC = ["l", "-1" + "0" * 30 + ".5", None, ref.DEC]
VARS = ["a", "b", "c", "d", "e"]
GRAPHS = [["u", "urn:g1"], ["u", "urn:g2"]]


def data_triples():
    # (now and then a predicate IRI also stands as subject / object, so that patterns repeating a variable across positions have matches)
    s = st.one_of(st.sampled_from(NODES), st.sampled_from(NODES), st.sampled_from(NODES), st.sampled_from(NODES + PREDS))
    o = st.one_of(st.sampled_from(NODES), st.sampled_from(LITS), st.sampled_from(LITS[:3]), st.sampled_from(NODES + PREDS))
    base = st.lists(st.tuples(s, st.sampled_from(PREDS), o).map(list), max_size=8, unique_by=repr)

    def mirrored(ts, pick):
        # now and then a relation holds both ways (a p b, b p a): solutions that are each other's mirror image
        if pick is None or not ts:
            return ts
        t = ts[pick % len(ts)]
        m = [t[2], t[1], t[0]]
        return ts + [m] if t[2][0] != "l" and m not in ts else ts
    return st.tuples(base, st.one_of(st.none(), st.none(), st.integers(0, 7))).map(lambda p: mirrored(p[0], p[1]))


@st.composite
def datasets(draw):
    g1 = draw(data_triples())
    k = draw(st.integers(0, 3))
    if k == 0:
        g2 = []
    elif k == 1 and g1:
        # the second graph shares triples with the first (the same bindings then arise in both graphs)
        keep = draw(st.lists(st.sampled_from(g1), min_size=1, max_size=len(g1), unique_by=repr))
        extra = draw(data_triples())
        g2 = keep + [t for t in extra if t not in keep][:3]
    else:
        g2 = draw(data_triples())
    return {"default": draw(data_triples()), "g1": g1, "g2": g2}


# ---------------------------------------------------------------- rendering
def term_text(t):
    if t[0] == "v":
        return "?" + t[1]
    if t[0] == "u":
        return f"<{t[1]}>"
    if t[0] == "b":
        raise ValueError("blank node constants are not written into query text")
    lex, lang, dt = t[1], (t[2] if len(t) > 2 else None), (t[3] if len(t) > 3 else None)
    s = '"' + lex.replace("\\", "\\\\").replace('"', '\\"') + '"'
    if lang:
        return s + "@" + lang
    if dt:
        return s + "^^<" + dt + ">"
    return s


def expr_text(e):
    k = e[0]
    if k == "var":
        return "?" + e[1]
    if k == "const":
        return term_text(e[1])
    if k in ("=", "!=", "<", ">", "<=", ">=", "&&", "||", "+", "-", "*", "/"):
        return f"({expr_text(e[1])} {k} {expr_text(e[2])})"
    if k == "!":
        return f"(!{expr_text(e[1])})"
    if k == "neg":
        return f"(-{expr_text(e[1])})"
    if k == "bound":
        return f"BOUND(?{e[1]})"
    if k == "coalesce":
        return "COALESCE(" + ", ".join(expr_text(x) for x in e[1]) + ")"
    if k == "if":
        return f"IF({expr_text(e[1])}, {expr_text(e[2])}, {expr_text(e[3])})"
    if k in ("isIRI", "isBlank", "isLiteral", "isNumeric", "str", "lang", "datatype"):
        return f"{k.upper() if k in ('str', 'lang', 'datatype') else k}({expr_text(e[1])})"
    if k == "sameTerm":
        return f"sameTerm({expr_text(e[1])}, {expr_text(e[2])})"
    if k in ("in", "notin"):
        return f"({expr_text(e[1])} {'IN' if k == 'in' else 'NOT IN'} (" + ", ".join(expr_text(x) for x in e[2]) + "))"
    if k in ("exists", "notexists"):
        return ("EXISTS " if k == "exists" else "NOT EXISTS ") + group_text(e[1])
    raise ValueError(e)


def group_text(p):
    """pattern as a braced group"""
    return "{ " + inner_text(p) + " }"


def inner_text(p, flat=False):
    k = p[0]
    if k == "bgp":
        return " ".join(f"{term_text(s)} {term_text(pp)} {term_text(o)} ." for s, pp, o in p[1])
    if k == "join":
        return f"{group_text(p[1])} {group_text(p[2])}"
    if k == "opt":
        f = f" FILTER({expr_text(p[3])})" if p[3] else ""
        return f"{child(p[1])} OPTIONAL {{ {child(p[2])}{f} }}"
    if k == "union":
        return f"{group_text(p[1])} UNION {group_text(p[2])}"
    if k == "minus":
        return f"{child(p[1])} MINUS {group_text(p[2])}"
    if k == "filter":
        return f"{child(p[2])} FILTER({expr_text(p[1])})"
    if k == "bind":
        return f"{child(p[1])} BIND({expr_text(p[2])} AS ?{p[3]})"
    if k == "values":
        rows = " ".join("(" + " ".join("UNDEF" if c is None else term_text(c) for c in row) + ")" for row in p[2])
        return "VALUES (" + " ".join("?" + v for v in p[1]) + ") { " + rows + " }"
    if k == "graph":
        return f"GRAPH {term_text(p[1])} {group_text(p[2])}"
    if k == "sub":
        return "{ " + select_text(p) + " }"
    if k == "group":
        return "{ " + select_text(["sub", None, False, p, None, None, None]) + " }"
    raise ValueError(p)


def child(p):
    """a child pattern inside a group: a BGP may stand unbraced (same algebra), everything else is braced"""
    if p[0] == "bgp":
        return inner_text(p)
    return group_text(p)


def select_text(p, prologue=""):
    _, vars_, distinct, A, order, limit, offset = (p + [None] * 7)[:7]
    mods = ""
    if A[0] == "group":
        _, keys, aggs, inner, having = A
        proj = []
        for kx in keys:
            proj.append("?" + kx[1] if ref.is_var(kx) else "?" + kx[1])
        for var, agg, expr, dist, sep in aggs:
            d = "DISTINCT " if dist else ""
            if agg == "count*":
                proj.append(f"(COUNT({d}*) AS ?{var})")
            elif agg == "group_concat":
                s = f'; SEPARATOR={term_text(["l", sep, None, None])}' if sep is not None else ""
                proj.append(f"(GROUP_CONCAT({d}{expr_text(expr)}{s}) AS ?{var})")
            else:
                proj.append(f"({agg.upper()}({d}{expr_text(expr)}) AS ?{var})")
        gb = ""
        if keys:
            gb = " GROUP BY " + " ".join("?" + kx[1] if ref.is_var(kx) else f"({expr_text(kx[0])} AS ?{kx[1]})" for kx in keys)
        hv = f" HAVING({expr_text(having)})" if having is not None else ""
        if vars_ is not None:
            keep = set(vars_)
            proj = [x for x in proj if x.lstrip("(").split(" AS ?")[-1].rstrip(")").lstrip("?") in keep]
        body = group_text(inner)
        head = " ".join(proj) if proj else "*"
        mods = gb + hv
    else:
        head = "*" if vars_ is None else " ".join("?" + v for v in vars_)
        body = group_text(A)
    if order:
        mods += " ORDER BY " + " ".join(("DESC(" if desc else "ASC(") + expr_text(e) + ")" for e, desc in order)
    if limit is not None:
        mods += f" LIMIT {limit}"
    if offset:
        mods += f" OFFSET {offset}"
    return f"{prologue}SELECT {'DISTINCT ' if distinct else ''}{head} WHERE {body}{mods}"


# ---------------------------------------------------------------- strategies
def var_s():
    return st.sampled_from(VARS).map(lambda v: ["v", v])


def const_nodes():
    return st.sampled_from(NODES[:3])  # blank nodes cannot be written as constants


def triple_pattern():
    s = st.one_of(var_s(), var_s(), const_nodes())
    p = st.one_of(st.sampled_from(PREDS), st.sampled_from(PREDS), var_s())
    o = st.one_of(var_s(), var_s(), const_nodes(), st.sampled_from(LITS))
    return st.tuples(s, p, o).map(list)


def bgp(min_size=1, pool=None):
    if not pool:
        return st.lists(triple_pattern(), min_size=min_size, max_size=3).map(lambda tps: ["bgp", tps])

    # patterns obtained by generalising data triples, so that most BGPs have solutions
    @st.composite
    def from_data(draw):
        t = draw(st.sampled_from(pool))
        out = []
        # mostly distinct variables within one triple pattern (a repeated variable only matches triples with equal terms there)
        names = draw(st.one_of(st.none(), st.none(), st.permutations(VARS), st.permutations(VARS), st.permutations(VARS)))
        for pos, x in enumerate(t):
            keep = x[0] != "b" and draw(st.integers(0, 2 if pos != 1 else 1)) == 0
            out.append(x if keep else ["v", names[pos] if names else draw(st.sampled_from(VARS))])
        return out
    tp = st.one_of(from_data(), from_data(), from_data(), triple_pattern())
    return st.lists(tp, min_size=min_size, max_size=3).map(lambda tps: ["bgp", tps])


def exprs(depth=2, exists=True):
    leaf = st.one_of(st.sampled_from(VARS).map(lambda v: ["var", v]), st.sampled_from(VARS).map(lambda v: ["var", v]),
                     st.sampled_from(LITS + NODES[:3] + [NEG_DEC, LONG_NEG_DEC]).map(lambda t: ["const", t]),
                     st.sampled_from(VARS).map(lambda v: ["bound", v]))

    def ext(inner):
        opts = [
            st.tuples(st.sampled_from(["=", "!=", "<", ">", "<=", ">="]), inner, inner).map(list),
            st.tuples(st.sampled_from(["&&", "||"]), inner, inner).map(list),
            st.tuples(st.just("!"), inner).map(list),
            st.tuples(st.sampled_from(["+", "-", "*"]), inner, inner).map(list),
            st.tuples(st.just("neg"), st.sampled_from(VARS).map(lambda v: ["var", v])).map(list),
            st.tuples(st.just("coalesce"), st.lists(inner, min_size=1, max_size=3)).map(list),
            st.tuples(st.just("if"), inner, inner, inner).map(list),
            # built-ins get a variable or constant as argument (what they do with an argument that is itself an error is not explored)
            st.tuples(st.sampled_from(["isIRI", "isBlank", "isLiteral", "isNumeric", "str", "lang", "datatype"]), leaf).map(list),
            st.tuples(st.just("sameTerm"), leaf, leaf).map(list),
            # IN lists hold constants of one kind as the left side can have (members that raise errors / differ only by datatype are
            # a corner of IN that is not generated, see DESIGN.md section 8)
            st.tuples(st.sampled_from(["in", "notin"]), st.sampled_from(VARS).map(lambda v: ["var", v]),
                      st.lists(st.sampled_from(NODES[:3] + [LITS[0], LITS[1], LITS[4]]).map(lambda t: ["const", t]), min_size=1, max_size=3)).map(list),
        ]
        if exists:
            opts.append(st.tuples(st.sampled_from(["exists", "notexists"]), st.one_of(bgp(), bgp().flatmap(
                lambda b: exprs(1, exists=False).map(lambda f: ["filter", f, b])))).map(list))
        return st.one_of(*opts)
    s = leaf
    for _ in range(depth):
        s = st.one_of(leaf, ext(s), ext(s))
    return s


def values_pattern():
    vs = st.lists(st.sampled_from(VARS), min_size=1, max_size=2, unique=True)
    cell = st.one_of(st.none(), st.sampled_from(NODES[:3] + LITS[:4]), st.sampled_from(NODES[:3]), st.sampled_from(NODES[:3] + LITS[:4] + [NEG_DEC, LONG_NEG_DEC]))
    return vs.flatmap(lambda v: st.lists(st.lists(cell, min_size=len(v), max_size=len(v)), min_size=0, max_size=3).map(lambda rows: ["values", v, rows]))


@st.composite
def patterns(draw, depth=3, dataset=False, pool=None):
    if depth <= 0 or draw(st.integers(0, 9)) < 1:
        # the empty group { } (one empty solution) is a legal leaf too
        return draw(st.one_of(bgp(pool=pool), bgp(pool=pool), bgp(pool=pool), bgp(pool=pool), values_pattern(), st.just(["bgp", []])))
    kinds = ["join", "opt", "opt-filter", "union", "minus", "filter", "bind", "sub", "join-bgp", "join-values", "join-values-apart", "minus-values"]
    if dataset:
        kinds += ["graph", "graph-var", "graph-var-exists", "graph-var-exists"]
    k = draw(st.sampled_from(kinds))
    A = draw(patterns(depth - 1, dataset, pool))
    if k in ("join", "union", "minus", "opt", "opt-filter"):
        B = draw(patterns(depth - 1, dataset, pool))
        if k == "opt":
            return ["opt", A, B, None]
        if k == "opt-filter":
            return ["opt", A, B, draw(exprs(2))]
        return [k, A, B]
    if k == "join-bgp":
        return ["join", A, draw(bgp(pool=pool))]
    if k == "minus-values":
        # MINUS where the shared variables are bound by inline data on one side only
        scope = sorted(ref.in_scope(A))
        if not scope:
            return A
        vs = draw(st.lists(st.sampled_from(scope), min_size=1, max_size=2, unique=True))
        terms = [x for t in (pool or []) for x in t if x[0] != "b"] + NODES[:3] + LITS[:4]
        rows = draw(st.lists(st.lists(st.sampled_from(terms), min_size=len(vs), max_size=len(vs)), min_size=1, max_size=3))
        V = ["values", vs, rows]
        return ["minus", A, V] if draw(st.booleans()) else ["minus", V, A]
    if k in ("join-values", "join-values-apart"):
        # inline data over variables the left side binds, with values taken from the data; now and then a row is written twice
        scope = sorted(ref.in_scope(A))
        if not scope:
            return A
        vs = draw(st.lists(st.sampled_from(scope), min_size=1, max_size=2, unique=True))
        terms = [x for t in (pool or []) for x in t if x[0] != "b"] + NODES[:3] + LITS[:4] + [NEG_DEC, LONG_NEG_DEC]
        rows = draw(st.lists(st.lists(st.sampled_from(terms), min_size=len(vs), max_size=len(vs)), min_size=1, max_size=3))
        if draw(st.booleans()):
            rows.append(list(rows[0]))
        V = ["values", vs, rows]
        where = draw(st.integers(2, 5)) if k == "join-values" else draw(st.integers(0, 1))
        if where <= 1:
            # the inline data sits in a group of its own beside patterns that need not mention its variables:
            # { A } { VALUES ?x {..} ?w :q ?z } — the two operands share ?x only through the VALUES block
            free = [v for v in VARS if v not in scope]
            apart = len(free) >= 2 and draw(st.integers(0, 3)) > 0
            if pool and draw(st.integers(0, 3)) > 0:
                # one data triple with subject and object made variables (it has solutions) ...
                t = draw(st.sampled_from(pool))
                a, b = draw(st.lists(st.sampled_from(free if apart else VARS), min_size=2, max_size=2, unique=True))
                other = ["bgp", [[["v", a], t[1], ["v", b]]]]
            else:
                other = draw(bgp(pool=pool))
                if apart:
                    other = ["bgp", [[(["v", free[VARS.index(x[1]) % len(free)]] if x[0] == "v" else x) for x in t] for t in other[1]]]
            # ... which, most of the time, mentions none of the left side's variables at all
            V = ["join", V, other] if where == 0 else ["join", other, V]
        return ["join", A, V] if where != 2 else ["join", V, A]
    if k == "graph-var-exists":
        # (NOT) EXISTS evaluated inside GRAPH ?g: its pattern is matched against the graph ?g ranges over, per graph
        if draw(st.booleans()):
            inner = draw(bgp(pool=pool))
            e = [draw(st.sampled_from(["exists", "notexists"])), draw(bgp(pool=pool))]
        else:
            # correlated: the same subject must (not) have another property in the graph at hand
            inner = ["bgp", [[["v", "a"], draw(st.sampled_from(PREDS)), ["v", "b"]]]]
            e = [draw(st.sampled_from(["exists", "notexists"])),
                 ["bgp", [[["v", "a"], draw(st.sampled_from(PREDS)), draw(st.sampled_from([["v", "c"], ["v", "b"]]))]]]]
        return ["graph", ["v", draw(st.sampled_from(["d", "e"]))], ["filter", e, inner]]
    if k == "filter":
        return ["filter", draw(exprs(2)), A]
    if k == "bind":
        free = [v for v in VARS if v not in ref.in_scope(A)]
        if not free:
            return A
        scope = sorted(ref.in_scope(A))
        simple = st.one_of(st.sampled_from(scope).map(lambda v: ["var", v]),
                           st.sampled_from(scope).map(lambda v: ["+", ["var", v], ["const", LITS[0]]]),
                           st.sampled_from(scope).map(lambda v: ["coalesce", [["var", v], ["const", LITS[1]]]])) if scope else exprs(1, exists=False)
        v = draw(st.sampled_from(free))
        node = ["bind", A, draw(st.one_of(simple, simple, exprs(2, exists=False))), v]
        if draw(st.booleans()):
            # use the new variable right away: OPTIONAL / join / MINUS on a pattern that mentions it
            tp = draw(triple_pattern())
            tp[draw(st.sampled_from([0, 2]))] = ["v", v]
            follow = draw(st.sampled_from(["opt", "join", "minus"]))
            nxt = ["bgp", [tp]]
            return ["opt", node, nxt, None] if follow == "opt" else [follow, node, nxt]
        return node
    if k == "sub":
        scope = sorted(ref.in_scope(A))
        if scope and draw(st.booleans()):
            vs = draw(st.lists(st.sampled_from(scope + ["e"]), min_size=1, max_size=3, unique=True))
        else:
            vs = None
        return ["sub", vs, draw(st.booleans()), A, None, None, None]
    if k == "graph":
        return ["graph", draw(st.sampled_from(GRAPHS + [["u", "urn:absent"]])), A]
    if k == "graph-var":
        return ["graph", ["v", draw(st.sampled_from(VARS))], A]
    raise ValueError(k)


def n_operators(p):
    if p[0] in ("bgp", "values"):
        return 0
    return 1 + sum(n_operators(x) for x in p[1:] if isinstance(x, list) and x and isinstance(x[0], str) and x[0] in
                   ("bgp", "join", "opt", "union", "minus", "filter", "bind", "values", "sub", "graph", "group"))
