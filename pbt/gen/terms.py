"""Hypothesis strategies for RDF terms in the JSON codec form (see pbt/codec.py)."""
from __future__ import annotations

from hypothesis import strategies as st

XSD = "http://www.w3.org/2001/XMLSchema#"
RDFNS = "http://www.w3.org/1999/02/22-rdf-syntax-ns#"

# ---------------------------------------------------------------- IRIs
_SCHEMES = ["http", "https", "urn", "file", "mailto", "tag"]
_PCHARS = "abcxyzABZ019-._~!$&'()*+,;=:@"
_UCS = ["é", "€", "\U0001F600", "а"]


@st.composite
def iris(draw, rich=True):
    """absolute IRIs, RFC 3987 shaped; never the characters rdflib documents as invalid (<>" {}|\\^`)."""
    if not rich or draw(st.integers(0, 9)) < 4:
        ns = draw(st.sampled_from(["http://ex.org/", "http://ex.org/ns#", "http://ex.org/a/", "http://ex.org/a/b#", "urn:ex:", "http://ex.org/a"]))
        local = draw(st.sampled_from(["a", "b", "c", "x1", "", "a.b", "1a", "a-b", "A_b", "a.", "%41", "a/b", "a:b"]))
        return ["u", ns + local]
    scheme = draw(st.sampled_from(_SCHEMES))
    seg = st.lists(st.sampled_from(list(_PCHARS) + _UCS + ["%41", "%2F", "%c3%A9"]), min_size=0, max_size=6).map("".join)
    if scheme in ("http", "https", "file"):
        host = draw(st.sampled_from(["ex.org", "ex.org:8080", "u@ex.org", "bücher.example", "127.0.0.1", ""])) if scheme != "file" else ""
        if scheme != "file" and host == "":
            host = "ex.org"
        path = "/".join(draw(st.lists(seg, min_size=0, max_size=3)))
        s = f"{scheme}://{host}/{path}"
    elif scheme == "urn":
        s = "urn:" + draw(st.sampled_from(["ex", "uuid", "isbn"])) + ":" + draw(seg)
    elif scheme == "mailto":
        s = "mailto:" + draw(st.sampled_from(["a@ex.org", "x.y@ex.org"]))
    else:
        s = "tag:ex.org,2020:" + draw(seg)
    if draw(st.integers(0, 5)) == 0 and scheme in ("http", "https"):
        s += "?" + draw(st.sampled_from(["q=1", "a=b&c=d", "", "x=%20"]))
    if draw(st.integers(0, 3)) == 0:
        s += "#" + draw(st.sampled_from(["", "f", "a.b", "1", "x/y", "a%41", "f)"]))
    return ["u", s]


# ---------------------------------------------------------------- blank nodes
def bnode_labels():
    return st.sampled_from(["a", "b", "b1", "x", "N0a1b2c3d4e5f60718293a4b5c6d7e8f9", "1", "a.b", "a-b", "n_1", "é"])


def bnodes():
    return bnode_labels().map(lambda l: ["b", l])


# ---------------------------------------------------------------- strings
_NASTY = ['"', "'", "\\", "\n", "\r", "\t", " ", "\x00", "\x01", "\x0b", "\x0c", "\x1f", "\x7f", "\x85", "\u2028", "\u2029",
          "\ufeff", "\U0001F600", "\U00010000", "\u00e9", "e\u0301", "\u0430", "<", ">", "&", "{", "}", "#", "@", "^", "a", "b", "z", "0", "1",
          '"""', "'''", "\\\"", "\\\\", "]]>", "\ufffd", "\ufffe", "\uffff", "_", ":", ".", ",", ";",
          # what looks like an escape once it follows a backslash of the text itself
          "x41", "u0041", "U0001F600", "n", "t", "N"]


def strings(max_size=8, xml_safe=False, extra=()):
    alpha = [c for c in _NASTY if not xml_safe or _xml_ok(c)] + list(extra)
    return st.lists(st.sampled_from(alpha), max_size=max_size).map("".join)


def _xml_ok(s):
    for ch in s:
        o = ord(ch)
        if not (o in (9, 10, 13) or 0x20 <= o <= 0xD7FF or 0xE000 <= o <= 0xFFFD or 0x10000 <= o <= 0x10FFFF):
            return False
    return True


def xml_ok(s):
    return _xml_ok(s)


LANGS = ["en", "EN", "en-US", "en-us", "de", "fr-CA", "zh-Hant-TW", "x-priv", "sr-Latn-RS", "en-GB-oed"]

# ---------------------------------------------------------------- typed literals with valid lexical forms in rdflib normal form
# (lexical forms here are ones that rdflib's normalisation maps to themselves; checked in self-test of c03)
TYPED_CANON = [
    ("integer", ["0", "1", "-1", "42", "123456789012345678901234567890", "-7"]),
    ("decimal", ["0.0", "1.5", "-1.5", "0.1", "123.456", "100.0", "1", "0", "-0.0", "1.000",
                 # finite decimals beyond the range of a double (float() of them is inf)
                 "1" + "0" * 310, "-1" + "0" * 310 + ".5"]),
    ("double", ["0.0", "1.0", "-1.5", "10000000000.0", "1e-07", "INF", "-INF", "NaN", "1.2345678901234568e+18", "10000001.0", "0.1"]),
    ("float", ["0.0", "1.0", "2.5"]),
    ("boolean", ["true", "false"]),
    ("string", ["", "a", "a b", "x\"y"]),
    ("dateTime", ["2000-01-01T00:00:00", "2024-02-29T23:59:59+00:00", "1999-12-31T12:00:00+05:30", "2000-01-01T00:00:00.500000"]),
    ("date", ["2000-01-01", "2024-02-29"]),
    ("time", ["00:00:00", "23:59:59", "12:00:00+00:00"]),
    ("duration", ["P1D", "PT1H", "P1Y2M3DT4H5M6S", "-P1D"]),
    ("gYear", ["2000", "1999"]),
    ("gYearMonth", ["2000-01"]),
    ("anyURI", ["http://ex.org/", "urn:x"]),
    ("hexBinary", ["", "0f", "deadbeef"]),
    ("base64Binary", ["", "YQ==", "YWJj"]),
    ("long", ["0", "9223372036854775807"]),
    ("int", ["0", "-2147483648"]),
    ("short", ["7"]), ("byte", ["-128"]), ("nonNegativeInteger", ["0", "5"]), ("positiveInteger", ["1"]),
    ("unsignedInt", ["4294967295"]), ("negativeInteger", ["-1"]), ("nonPositiveInteger", ["0"]),
    ("normalizedString", ["a b"]), ("token", ["a b"]), ("language", ["en"]), ("Name", ["a"]), ("NCName", ["a"]),
]
# non-canonical but valid forms; round-trip compares through canonical()
TYPED_NONCANON = [
    ("integer", ["+1", "007", "-0", "00"]), ("decimal", ["+1.50", ".5", "5."]),
    ("double", ["1", "1e0", "1E5", "-.5e-3", "+1.0E+1", "1.2345678901234567E18", "0.0E0", "1.0E0", "1.0E-7", "+INF"]),
    ("float", ["1", "1.5e0", "2.5E0"]), ("boolean", ["1", "0"]),
    ("dateTime", ["2000-01-01T00:00:00.5", "2024-02-29T23:59:59Z"]),
    ("time", ["12:00:00Z"]),
    ("hexBinary", ["0F", "DEADBEEF"]), ("base64Binary", ["YQ = ="]),
]
TYPED_INVALID = [
    ("integer", ["", "abc", "1.0", " 1 ", "1e2"]), ("decimal", ["1e2", "abc", ""]), ("double", ["abc", "", "1.0.0"]),
    ("boolean", ["TRUE", "yes", ""]), ("dateTime", ["2000-13-01T00:00:00", "yesterday", ""]), ("date", ["2000-02-30", "x"]),
    ("time", ["25:00:00"]), ("duration", ["P", "1D"]), ("hexBinary", ["0", "XY"]), ("gYear", ["x"]),
]
UNKNOWN_DT = ["http://ex.org/dt", "http://ex.org/dt#unit", "http://ex.org/dt?a=1&b=2", RDFNS + "XMLLiteral", RDFNS + "HTML", RDFNS + "JSON",
              "http://www.opengis.net/ont/geosparql#wktLiteral"]


def _typed(table):
    pairs = [(n, l) for n, ls in table for l in ls]
    return st.sampled_from(pairs).map(lambda p: ["l", p[1], None, XSD + p[0]])


def typed_canon():
    return _typed(TYPED_CANON)


def typed_noncanon():
    return _typed(TYPED_NONCANON)


def typed_invalid():
    return _typed(TYPED_INVALID)


def plain_literals(max_size=8, xml_safe=False):
    return strings(max_size, xml_safe).map(lambda s: ["l", s, None, None])


def lang_literals(max_size=6, xml_safe=False):
    return st.tuples(strings(max_size, xml_safe), st.sampled_from(LANGS)).map(lambda p: ["l", p[0], p[1], None])


def unknown_typed(max_size=6, xml_safe=False):
    return st.tuples(strings(max_size, xml_safe), st.sampled_from(UNKNOWN_DT)).map(lambda p: ["l", p[0], None, p[1]])


# well-formed XML content typed rdf:XMLLiteral: 1-3 sibling elements, each declaring its namespace itself (the same namespace may be
# declared on several siblings), children in the scope of their parent; now and then a prefix that only an attribute uses; no comments
_XML_TEXT = ["t", "a b", "\u00e9\U0001F600", "&amp;", "&lt;x&gt;", "", " "]
_XML_NS = ["http://www.w3.org/1999/xhtml", "http://ex.org/ns#"]


@st.composite
def xml_fragments(draw):
    def element(kind, ns, depth):
        name = {"plain": "a", "default": "p", "prefixed": "x:e"}[kind]
        attrs = draw(st.sampled_from(["", "", ' b="1"', ' b="1" c="&amp;2"']))
        if ns is not None and draw(st.integers(0, 4)) == 0:
            # a namespace that only an attribute uses
            attrs = ' xmlns:y="http://ex.org/attr#" y:b="1"' + (attrs if "b=" not in attrs else "")
        kids = []
        for _ in range(draw(st.integers(0, 2))):
            if depth > 0 and draw(st.booleans()):
                kids.append(element(kind, None, depth - 1))
            else:
                kids.append(draw(st.sampled_from(_XML_TEXT)))
        decl = "" if ns is None else (f' xmlns="{ns}"' if kind == "default" else (f' xmlns:x="{ns}"' if kind == "prefixed" else ""))
        body = "".join(kids)
        return f"<{name}{decl}{attrs}>{body}</{name}>" if body else f"<{name}{decl}{attrs}/>"
    parts = []
    for _ in range(draw(st.integers(1, 3))):
        kind = draw(st.sampled_from(["plain", "default", "default", "prefixed"]))
        parts.append(element(kind, draw(st.sampled_from(_XML_NS)), 1))
        if draw(st.integers(0, 3)) == 0:
            parts.append(draw(st.sampled_from(["t", " "])))
    return ["l", "".join(parts), None, RDFNS + "XMLLiteral"]


def wellformed_xml_fragment(lex):
    """content that rdf:parseType="Literal" can carry as it is (used to admit rdf:XMLLiteral terms to the RDF/XML legs)"""
    if "<!--" in lex or "<?" in lex or "<!" in lex:
        return False
    try:
        import xml.dom.minidom
        xml.dom.minidom.parseString("<r>" + lex + "</r>")
        return True
    except Exception:  # noqa: BLE001
        return False


def xsd_string_literals(max_size=6, xml_safe=False):
    return strings(max_size, xml_safe).map(lambda s: ["l", s, None, XSD + "string"])


def literals(xml_safe=False, noncanon=False, invalid=False, unknown=True):
    opts = [plain_literals(xml_safe=xml_safe), lang_literals(xml_safe=xml_safe), typed_canon(), xsd_string_literals(xml_safe=xml_safe)]
    if unknown:
        opts.append(unknown_typed(xml_safe=xml_safe))
        opts.append(xml_fragments())
    if noncanon:
        opts.append(typed_noncanon())
    if invalid:
        opts.append(typed_invalid())
    return st.one_of(*opts)


FALSY = [["l", "", None, None], ["l", "0", None, XSD + "integer"], ["l", "false", None, XSD + "boolean"],
         ["l", "0.0", None, XSD + "decimal"], ["l", "0.0E0", None, XSD + "double"], ["l", "", None, XSD + "string"]]


def falsy_literals():
    return st.sampled_from(FALSY)
