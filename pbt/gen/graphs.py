"""Graph strategies in JSON form: a graph is a list of triples [s, p, o] of JSON terms (pbt.codec)."""
from __future__ import annotations

from hypothesis import strategies as st

from pbt.gen import terms as gt

RDF = gt.RDFNS
FIRST, REST, NIL, TYPE = ["u", RDF + "first"], ["u", RDF + "rest"], ["u", RDF + "nil"], ["u", RDF + "type"]


def B(i, pre="n"):
    return ["b", f"{pre}{i}"]


# ---------------------------------------------------------------- symmetric blank-node families (edge lists over 0..n-1)
def cycle(n, off=0):
    return [(off + i, off + (i + 1) % n) for i in range(n)]


def complete_bipartite(m, n):
    return [(i, m + j) for i in range(m) for j in range(n)]


def cube():
    return [(i, i ^ (1 << b)) for i in range(8) for b in range(3) if i < i ^ (1 << b)]


def prism(n):
    return cycle(n) + cycle(n, n) + [(i, n + i) for i in range(n)]


def moebius(n):
    # Moebius ladder on 2n nodes: cycle of length 2n plus n rungs i -- i+n
    return cycle(2 * n) + [(i, i + n) for i in range(n)]


def petersen():
    return cycle(5) + [(i, i + 5) for i in range(5)] + [(5 + i, 5 + (i + 2) % 5) for i in range(5)]


def star(n):
    return [(0, i) for i in range(1, n + 1)]


def path(n):
    return [(i, i + 1) for i in range(n - 1)]


def complete(n):
    return [(i, j) for i in range(n) for j in range(n) if i < j]


@st.composite
def symmetric_edges(draw, max_nodes=10):
    """(name, edges) of one symmetric family within max_nodes blank nodes"""
    opts = []
    for n in range(2, max_nodes + 1):
        opts.append((f"C{n}", cycle(n)))
    for a in range(2, max_nodes // 2 + 1):
        for b in range(a, max_nodes - a + 1):
            opts.append((f"C{a}+C{b}", cycle(a) + cycle(b, a)))
    for m in range(1, 5):
        for n in range(m, 5):
            if m + n <= max_nodes:
                opts.append((f"K{m},{n}", complete_bipartite(m, n)))
    for n in range(3, 6):
        if 2 * n <= max_nodes:
            opts.append((f"prism{n}", prism(n)))
            opts.append((f"moebius{n}", moebius(n)))
    if max_nodes >= 8:
        opts.append(("cube", cube()))
    if max_nodes >= 10:
        opts.append(("petersen", petersen()))
    for n in range(2, min(6, max_nodes)):
        opts.append((f"star{n}", star(n)))
        opts.append((f"path{n + 1}", path(n + 1)))
        opts.append((f"K{n}", complete(n)))
    a = draw(st.sampled_from(opts))
    if draw(st.integers(0, 4)) == 0:
        # disjoint union of two (possibly different) families: same local structure, different global structure
        na = 1 + max(x for e in a[1] for x in e)
        small = [o for o in opts if 1 + max(x for e in o[1] for x in e) <= max_nodes - na]
        if small:
            b = draw(st.sampled_from(small))
            return (a[0] + "|" + b[0], a[1] + [(x + na, y + na) for x, y in b[1]])
    return a


@st.composite
def bnode_structure(draw, max_nodes=10, pre="n"):
    """triples over blank nodes from a symmetric family or a random bnode graph; 1-2 predicates; directed or symmetric edges;
    optional identical decorations (ground triples hanging off every node) which keep the symmetry."""
    preds = [["u", "urn:p"], ["u", "urn:q"]]
    shape = draw(st.integers(0, 8))
    extra = []
    if shape <= 1:
        n = draw(st.integers(1, min(6, max_nodes)))
        edges = draw(st.lists(st.tuples(st.integers(0, n - 1), st.integers(0, n - 1)), max_size=2 * n))
        name = "random"
    elif shape in (2, 8):
        # two relations over the same nodes, each a permutation: every node has one edge in and one out per predicate, so colour
        # refinement alone cannot split anything and the search over individualisations decides
        n = draw(st.one_of(st.integers(3, min(8, max_nodes)), st.integers(4, 6)))
        edges = list(enumerate(draw(st.permutations(range(n)))))
        extra = list(enumerate(draw(st.permutations(range(n)))))
        name = "two-permutations"
    elif shape == 3:
        # a symmetric family on one predicate overlaid with a few edges of the other predicate on the same nodes
        name, edges = draw(symmetric_edges(max_nodes))
        ns = sorted({x for e in edges for x in e})
        extra = draw(st.lists(st.tuples(st.sampled_from(ns), st.sampled_from(ns)), min_size=1, max_size=len(ns))) if ns else []
        name = "overlay"
    else:
        name, edges = draw(symmetric_edges(max_nodes))
    both = draw(st.booleans()) and name != "two-permutations"
    triples = []
    k = draw(st.integers(0, 1))
    p = preds[k]
    for a, b in edges:
        triples.append([B(a, pre), p, B(b, pre)])
        if both:
            triples.append([B(b, pre), p, B(a, pre)])
    for a, b in extra:
        triples.append([B(a, pre), preds[1 - k], B(b, pre)])
    deco = draw(st.integers(0, 3))
    nodes = sorted({x for e in edges for x in e})
    if deco == 1:
        for x in nodes:
            triples.append([B(x, pre), ["u", "urn:label"], ["l", "x", None, None]])
    elif deco == 2:
        for x in nodes:
            triples.append([B(x, pre), TYPE, ["u", "urn:C"]])
            triples.append([["u", "urn:root"], ["u", "urn:has"], B(x, pre)])
    return name, triples


# ---------------------------------------------------------------- rdf:List structures
def rdf_list(members, pre="l", head=None, start=0):
    """well-formed list; returns (head term, triples)"""
    if not members:
        return NIL, []
    cells = [B(start + i, pre) for i in range(len(members))]
    if head is not None:
        cells[0] = head
    triples = []
    for i, m in enumerate(members):
        triples.append([cells[i], FIRST, m])
        triples.append([cells[i], REST, cells[i + 1] if i + 1 < len(members) else NIL])
    return cells[0], triples


@st.composite
def list_structures(draw, member=None, malformed=True):
    """(kind, triples): a list attached to urn:s via urn:list, well-formed or one of the malformed shapes"""
    member = member or st.one_of(gt.iris(rich=False), gt.literals(xml_safe=True), gt.falsy_literals())
    ms = draw(st.lists(member, max_size=4))
    kinds = ["ok", "ok", "nested", "shared-tail", "unattached", "bnode-members", "bnode-members", "bnode-members", "bnode-members",
             "owner-in-cycle", "owner-in-cycle"]
    if malformed:
        kinds += ["two-first", "no-rest", "extra-prop", "cyclic", "cyclic-noentry", "nil-props", "iri-cell", "no-first"]
    kind = draw(st.sampled_from(kinds))
    head, t = rdf_list(ms)
    triples = list(t)
    attach = [["u", "urn:s"], ["u", "urn:list"], head]
    if kind == "ok":
        triples.append(attach)
    elif kind == "unattached":
        pass
    elif kind == "nested":
        ih, it = rdf_list(draw(st.lists(member, max_size=2)), pre="i")
        h2, t2 = rdf_list(ms + [ih], pre="l")
        triples = t2 + it + [[["u", "urn:s"], ["u", "urn:list"], h2]]
    elif kind == "owner-in-cycle":
        # the list hangs off a blank node that is only reachable through a cycle of blank nodes, and the labels of the cells are
        # drawn: whichever order a serializer takes the subjects in, a cell may come before the node that owns the list
        labels = draw(st.permutations(["a", "k", "o", "z"]))
        ms2 = ms[:3] or [["l", "1", None, None]]
        cells = [["b", labels[i]] for i in range(len(ms2))]
        owner, other = ["b", "m"], ["b", "n"]
        triples = [[owner, ["u", "urn:next"], other], [other, ["u", "urn:next"], owner], [owner, ["u", "urn:list"], cells[0]]]
        for i, m in enumerate(ms2):
            triples.append([cells[i], FIRST, m])
            triples.append([cells[i], REST, cells[i + 1] if i + 1 < len(ms2) else NIL])
    elif kind == "bnode-members":
        # members that are blank nodes with properties of their own, referenced from elsewhere too; the list may hang off one of them
        bm = [B(i, "m") for i in range(3)]
        ms2 = [draw(st.one_of(st.sampled_from(bm), st.sampled_from(bm), member)) for _ in range(draw(st.integers(1, 3)))]
        owners = [["u", "urn:s"], ["u", "urn:z"]] + bm
        owner = draw(st.sampled_from(owners))
        if draw(st.booleans()):
            # a member that a serializer has met before it reaches the list: the owner itself, or a node hanging off an earlier subject
            ms2[draw(st.integers(0, len(ms2) - 1))] = owner if owner[0] == "b" and draw(st.booleans()) else bm[0]
        head, t = rdf_list(ms2)
        triples = [[["u", "urn:a"], ["u", "urn:p"], bm[0]], [bm[0], ["u", "urn:q"], ["l", "v", None, None]]] + list(t)
        triples.append([owner, ["u", "urn:list"], head])
        for _ in range(draw(st.integers(1, 4))):
            triples.append([draw(st.sampled_from(owners)), ["u", draw(st.sampled_from(["urn:p", "urn:q"]))],
                            draw(st.one_of(st.sampled_from(bm), st.just(["l", "v", None, None]), st.just(["u", "urn:o"])))])
    elif kind == "shared-tail":
        triples.append(attach)
        if len(ms) >= 2:
            triples.append([B(9, "l"), FIRST, ["l", "z", None, None]])
            triples.append([B(9, "l"), REST, B(1, "l")])
            triples.append([["u", "urn:s2"], ["u", "urn:list"], B(9, "l")])
    elif ms:
        k = draw(st.integers(0, len(ms) - 1))
        cell = B(k, "l")
        triples.append(attach)
        if kind == "two-first":
            triples.append([cell, FIRST, ["l", "extra", None, None]])
        elif kind == "no-rest":
            triples = [x for x in triples if not (x[0] == cell and x[1] == REST)]
        elif kind == "no-first":
            triples = [x for x in triples if not (x[0] == cell and x[1] == FIRST)]
        elif kind == "extra-prop":
            triples.append([cell, ["u", "urn:note"], ["l", "n", None, None]])
        elif kind == "cyclic":
            last = B(len(ms) - 1, "l")
            triples = [x for x in triples if not (x[0] == last and x[1] == REST)]
            triples.append([last, REST, B(draw(st.integers(0, len(ms) - 1)), "l")])
        elif kind == "cyclic-noentry":
            last = B(len(ms) - 1, "l")
            triples = [x for x in triples if not (x[0] == last and x[1] == REST) and x != attach]
            triples.append([last, REST, B(0, "l")])
        elif kind == "nil-props":
            # rdf:nil with statements of its own, now and then one that makes it look like a cell
            triples.append([NIL, draw(st.sampled_from([["u", "urn:note"], ["u", "urn:note"], FIRST])), ["l", "n", None, None]])
        elif kind == "iri-cell":
            iri = ["u", "urn:cell"]
            triples = [[iri if y == cell else y for y in x] for x in triples]
    else:
        triples.append(attach)
    return kind, triples


# ---------------------------------------------------------------- general graphs
@st.composite
def graphs(draw, max_triples=10, xml_safe=False, noncanon=False, invalid=False, lists=True, malformed_lists=True, max_bnodes=8, rich_iris=True,
           literal_subjects=False):
    """a graph as list of JSON triples, plus a set of feature labels"""
    feats = set()
    subj = st.one_of(gt.iris(rich=rich_iris), gt.iris(rich=False), st.integers(0, 3).map(lambda i: B(i, "g")))
    pred = gt.iris(rich=rich_iris)
    obj = st.one_of(gt.iris(rich=rich_iris), st.integers(0, 3).map(lambda i: B(i, "g")),
                    gt.literals(xml_safe=xml_safe, noncanon=noncanon, invalid=invalid), gt.falsy_literals())
    pool_s = draw(st.lists(subj, min_size=1, max_size=4))
    pool_p = draw(st.lists(pred, min_size=1, max_size=3))
    pool_o = draw(st.lists(obj, min_size=1, max_size=5))
    n = draw(st.integers(0, max_triples))
    triples = []
    for _ in range(n):
        triples.append([draw(st.sampled_from(pool_s)), draw(st.sampled_from(pool_p)), draw(st.sampled_from(pool_o + pool_s))])
    k = draw(st.integers(0, 9))
    if k <= 2 and max_bnodes >= 2:
        name, bt = draw(bnode_structure(max_nodes=max_bnodes))
        triples += bt
        feats.add("bnode-structure:" + name.split("+")[0].rstrip("0123456789,"))
    if lists and k in (3, 4, 5):
        kind, lt = draw(list_structures(malformed=malformed_lists,
                                        member=st.one_of(gt.iris(rich=False), gt.literals(xml_safe=xml_safe), gt.falsy_literals())))
        triples += lt
        feats.add("list:" + kind)
    if k == 6:
        # reification quad + class typing (Turtle top-level ordering)
        triples += [[B(0, "r"), TYPE, ["u", RDF + "Statement"]], [B(0, "r"), ["u", RDF + "subject"], ["u", "urn:s"]],
                    [B(0, "r"), ["u", RDF + "predicate"], ["u", "urn:p"]], [B(0, "r"), ["u", RDF + "object"], ["l", "o", None, None]],
                    [["u", "urn:K"], TYPE, ["u", "http://www.w3.org/2000/01/rdf-schema#Class"]]]
        feats.add("reification")
    if k == 7:
        # nested anonymous nodes: tree / DAG / self loop / unreferenced
        triples += [[["u", "urn:s"], ["u", "urn:p"], B(0, "t")], [B(0, "t"), ["u", "urn:p"], B(1, "t")], [B(1, "t"), ["u", "urn:q"], ["l", "leaf", None, None]],
                    [B(0, "t"), ["u", "urn:q"], B(2, "t")], [B(2, "t"), ["u", "urn:q"], B(1, "t")]]
        if draw(st.booleans()):
            triples.append([B(3, "t"), ["u", "urn:p"], B(3, "t")])
            feats.add("bnode-selfloop")
        if draw(st.booleans()):
            triples.append([B(4, "t"), ["u", "urn:p"], ["l", "unreferenced", None, None]])
        feats.add("bnode-tree")
    if k == 8:
        # anonymous class: a blank node that is only referenced as the object of rdf:type and has properties of its own
        triples += [[["u", "urn:s"], TYPE, B(0, "c")], [B(0, "c"), ["u", "http://www.w3.org/2000/01/rdf-schema#label"], ["l", "anon", None, None]],
                    [B(0, "c"), TYPE, ["u", "http://www.w3.org/2002/07/owl#Restriction"]]]
        feats.add("bnode-as-type")
    if k == 9:
        # classes that are terms of the RDF/XML syntax itself
        triples += [[["u", "urn:s"], TYPE, ["u", RDF + "Description"]], [["u", "urn:s"], ["u", "urn:p"], ["l", "x", None, None]],
                    [B(0, "y"), TYPE, ["u", RDF + draw(st.sampled_from(["li", "RDF", "Description", "Bag"]))]]]
        feats.add("type-is-syntax-term")
    # dedupe preserving order
    seen, outl = set(), []
    for t in triples:
        kx = repr(t)
        if kx not in seen:
            seen.add(kx)
            outl.append(t)
    return outl, sorted(feats)
