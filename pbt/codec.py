"""JSON <-> rdflib terms. A term is a list:
  ["u", iri] | ["b", label] | ["l", lexical, lang|None, datatype|None] (+ optional 5th element False = normalize=False)
  | ["v", name]
All strings are emitted with ensure_ascii so replay files are byte-stable."""
from __future__ import annotations

from rdflib.term import BNode, Literal, URIRef, Variable


def T(j):
    k = j[0]
    if k == "u":
        return URIRef(j[1])
    if k == "b":
        return BNode(j[1])
    if k == "v":
        return Variable(j[1])
    if k == "l":
        lang = j[2] if len(j) > 2 else None
        dt = j[3] if len(j) > 3 else None
        norm = j[4] if len(j) > 4 else None
        if dt is not None:
            return Literal(j[1], datatype=URIRef(dt), normalize=norm)
        if lang is not None:
            return Literal(j[1], lang=lang)
        return Literal(j[1])
    raise ValueError(j)


def J(t):
    if isinstance(t, URIRef):
        return ["u", str(t)]
    if isinstance(t, BNode):
        return ["b", str(t)]
    if isinstance(t, Variable):
        return ["v", str(t)]
    if isinstance(t, Literal):
        return ["l", str(t), t.language, None if t.datatype is None else str(t.datatype)]
    raise TypeError(type(t))


def key(t):
    """Independent identity tuple of a term: (kind, lexical, datatype, lower(lang)). Does not call Literal.__eq__."""
    if isinstance(t, Literal):
        return ("l", str.__str__(t), None if t.datatype is None else str.__str__(t.datatype),
                None if t.language is None else t.language.lower())
    if isinstance(t, URIRef):
        return ("u", str.__str__(t))
    if isinstance(t, BNode):
        return ("b", str.__str__(t))
    if isinstance(t, Variable):
        return ("v", str.__str__(t))
    if t is None:
        return None
    # rdflib Graph objects used as context
    ident = getattr(t, "identifier", None)
    if ident is not None:
        return key(ident)
    raise TypeError(type(t))


def jkey(j):
    """identity tuple computed from the JSON form without building a term (for literals: as written)."""
    if j[0] == "l":
        return ("l", j[1], j[3] if len(j) > 3 else None, (j[2].lower() if len(j) > 2 and j[2] else None))
    return (j[0], j[1])


def tkey(triple):
    return tuple(key(x) for x in triple)
