"""C05 — parsers read every legal spelling of a graph; N-Triples / N-Quads output is valid.

forward: a graph (or dataset) is spelled by an independent randomised writer (pbt/oracle/syntax.py: every lexical choice is a drawn integer)
in N-Triples, N-Quads, Turtle, TriG, RDF/XML or JSON-LD; RDFLib must parse the document to that graph (up to blank node renaming), and
str / bytes / BytesIO / StringIO / Path / location hand-overs must agree.
reverse: RDFLib's own nt / nquads output must be accepted by a strict reader transcribed from the W3C grammar and mean the same graph there;
its xml / pretty-xml / trix output must be well-formed for expat, its json-ld output for json.loads."""
from __future__ import annotations

import io
import json
import os
import pathlib
import shutil
import tempfile
import warnings
import xml.parsers.expat

from hypothesis import strategies as st

from rdflib import Dataset, Graph, URIRef

from pbt.codec import T, key
from pbt.core import K, Out, Sub, is_err, sut
from pbt.gen import graphs as gg
from pbt.gen import terms as gt
from pbt.oracle import iso
from pbt.oracle import syntax as sx

RULE = ("graphs of 0-10 triples (plus blank node structures and lists) over RFC 3987 shaped IRIs, blank nodes and all literal families (strings with "
        "quotes, backslashes, control characters, line ends, non-BMP; language tags; typed literals in RDFLib's normal lexical form), datasets with "
        "0-2 named graphs; one document per case, its spelling decided by 40-120 drawn integers. Non-trivial = the writer used >=2 distinct "
        "abbreviation / escape features (reported per document); distinct by SHA-1 of the case JSON.")
ASSUMPTIONS = ["typed literals are written in the lexical form RDFLib normalises to (other lexical forms are C09's subject)",
               "language tags are compared case-insensitively",
               "the writers are harness code; every N-Triples / N-Quads document they produce is first read back by the harness's strict reader "
               "(self-test, counted) before RDFLib's answer is judged"]

MODES = ["str", "bytes", "BytesIO", "StringIO", "Path", "location"]
SUFFIX = {"nt": ".nt", "nquads": ".nq", "turtle": ".ttl", "trig": ".trig", "xml": ".rdf", "json-ld": ".jsonld"}


def tk(t):
    return tuple(key(T(x)) for x in t)


def parse_modes(doc, fmt, dataset, modes, base=None, encoding="utf-8"):
    """-> {mode: set of key tuples | SutError}"""
    res = {}
    tmp = None
    try:
        for mode in modes:
            kw = {}
            if mode == "str":
                kw["data"] = doc
            elif mode == "bytes":
                kw["data"] = doc.encode(encoding)
            elif mode == "BytesIO":
                kw["file"] = io.BytesIO(doc.encode(encoding))
            elif mode == "StringIO":
                kw["file"] = io.StringIO(doc)
            else:
                if tmp is None:
                    tmp = tempfile.mkdtemp(prefix="c05-")
                    with open(os.path.join(tmp, "doc" + SUFFIX[fmt]), "w", encoding=encoding, newline="") as f:
                        f.write(doc)
                path = os.path.join(tmp, "doc" + SUFFIX[fmt])
                if mode == "Path":
                    kw["source"] = pathlib.Path(path)
                else:
                    kw["location"] = path
            if base is not None:
                kw["publicID"] = base

            def do():
                with warnings.catch_warnings():
                    warnings.simplefilter("ignore")
                    if dataset:
                        d = Dataset()
                        d.parse(format=fmt, **kw)
                        default_id = d.default_context.identifier
                        out = set()
                        for (s, p, o), ctxs in d.store.triples((None, None, None), None):
                            for c in ctxs:
                                ident = getattr(c, "identifier", c)
                                out.add((key(s), key(p), key(o), None if ident == default_id else key(ident)))
                        return out
                    g = Graph()
                    g.parse(format=fmt, **kw)
                    return {tuple(key(x) for x in t) for t in g}
            res[mode] = sut(do)
    finally:
        if tmp is not None:
            shutil.rmtree(tmp, ignore_errors=True)
    return res


def judge(out, res, want, fmt, doc, feats, case_desc):
    """all hand-over modes must give the wanted graph"""
    first = res.get("str", next(iter(res.values())))
    for mode, r in res.items():
        if is_err(r):
            out.fail(("parse-raises", fmt, mode if is_err(first) is False else "all-modes", r.kind, r.site),
                     f"format={fmt} mode={mode}\n document:\n{doc[:1500]!r}\n {r!r}\n features={sorted(feats)}")
            return False
    for mode, r in res.items():
        try:
            same = iso.isomorphic(want, r)
        except iso.IsoBudget:
            out.cls("iso-budget")
            return False
        if not same:
            blame = "all-modes" if all(not is_err(x) and x == r for x in res.values()) else mode
            g_w, g_r = {t for t in want if not any(iso.is_b(x) for x in t)}, {t for t in r if not any(iso.is_b(x) for x in t)}
            out.fail(("parsed-graph-differs", fmt, blame, "ground" if g_w != g_r else "blank-node-structure"),
                     f"format={fmt} mode={mode}\n document:\n{doc[:1500]!r}\n expected-only={sorted(g_w - g_r, key=repr)[:3]}\n parsed-only={sorted(g_r - g_w, key=repr)[:3]}\n"
                     f" sizes expected {len(want)} parsed {len(r)}\n features={sorted(feats)}")
            return False
    return True


# ---------------------------------------------------------------- N-Triples / N-Quads, forward
def run_nt(case):
    out = Out()
    quads = case["syntax"] == "nquads"
    c = sx.Chooser(case["choices"])
    if quads:
        tuples = [tk(q[:3]) + ((key(T(q[3])) if q[3] is not None else None),) for q in case["quads"]]
        want = set(tuples)
    else:
        tuples = [tk(t) for t in case["triples"]]
        want = set(tuples)
    doc = sx.write_nt(tuples, c)
    # self-test of the writer against the strict reader
    try:
        back = sx.read_nt_strict(doc, quads=quads)
    except sx.StrictSyntaxError as e:
        raise AssertionError(f"harness writer produced a document its own strict reader rejects: {e}\n{doc!r}")
    if back != want:
        raise AssertionError(f"harness writer/reader disagree\n{doc!r}\n{sorted(back ^ want, key=repr)[:3]}")
    res = parse_modes(doc, case["syntax"], quads, case["modes"])
    if not judge(out, res, want, case["syntax"], doc, c.features, case):
        return out
    out.nontrivial = len(c.features) >= 2 and bool(want)
    out.cls("syntax:" + case["syntax"], *["f:" + f for f in sorted(c.features)], "features:%d" % min(len(c.features), 6))
    return out


@st.composite
def nt_cases(draw, tier):
    syntax = draw(st.sampled_from(["nt", "nquads"]))
    g = draw(gg.graphs(max_triples=8, lists=draw(st.integers(0, 3)) == 0, malformed_lists=False))
    triples = g[0]
    choices = draw(st.lists(st.integers(0, 999), min_size=40, max_size=80))
    modes = ["str"] + draw(st.lists(st.sampled_from(MODES[1:]), min_size=1, max_size=2, unique=True))
    if syntax == "nt":
        return {"syntax": syntax, "triples": triples, "choices": choices, "modes": modes}
    names = [None, None, ["u", "http://ex.org/g1"], ["u", "urn:ex:g#2"], ["b", "gb"]]
    quads = [t + [draw(st.sampled_from(names))] for t in triples]
    return {"syntax": syntax, "quads": quads, "choices": choices, "modes": modes}


# ---------------------------------------------------------------- reverse: RDFLib's output read by strict / stdlib readers
def run_output(case):
    out = Out()
    fmt = case["format"]
    if fmt in ("xml", "pretty-xml"):
        from pbt.props.c03 import xml_name_hazard
        if K.skip("C05-rdfxml-illformed-names", any(xml_name_hazard(t[1][1]) for t in case["triples"]), out):
            return out
    with warnings.catch_warnings():
        warnings.simplefilter("ignore")
        if fmt in ("nquads", "trix"):
            target = Dataset()
            want = set()
            for q in case["quads"]:
                t = tuple(T(x) for x in q[:3])
                if q[3] is None:
                    target.default_context.add(t)
                else:
                    target.get_context(T(q[3])).add(t)
                want.add(tk(q[:3]) + ((key(T(q[3])) if q[3] is not None else None),))
        else:
            target = Graph()
            for t in case["triples"]:
                target.add(tuple(T(x) for x in t))
            want = {tk(t) for t in case["triples"]}
        res = sut(lambda: target.serialize(format=fmt, encoding="utf-8"))
    if is_err(res):
        if fmt in ("xml", "pretty-xml") and ("no valid way to shorten" in repr(res) or "Can't split" in repr(res)):
            # RDF/XML cannot name every predicate IRI as an element; RDFLib documents the refusal
            out.cls("rdfxml-inexpressible-predicate")
            return out
        out.fail(("serialize-raises", fmt, res.kind, res.site), f"{fmt}: {res!r}\n graph={sorted(want, key=repr)[:6]}")
        return out
    data = res
    try:
        text = data.decode("utf-8")
    except UnicodeDecodeError as e:
        out.fail(("output-not-utf8", fmt), f"{fmt}: {e}")
        return out
    if fmt in ("nt", "nquads"):
        try:
            back = sx.read_nt_strict(text, quads=fmt == "nquads")
        except sx.StrictSyntaxError as e:
            out.fail(("output-rejected-by-strict-reader", fmt), f"{fmt}: {e}\n output={text[:800]!r}")
            return out
        try:
            same = iso.isomorphic(want, back)
        except iso.IsoBudget:
            return out
        if not same:
            out.fail(("output-means-another-graph", fmt), f"{fmt}\n output={text[:800]!r}\n expected-only={sorted(want - back, key=repr)[:3]}\n read-only={sorted(back - want, key=repr)[:3]}")
            return out
    elif fmt in ("xml", "pretty-xml", "trix"):
        p = xml.parsers.expat.ParserCreate()
        try:
            p.Parse(data, True)
        except xml.parsers.expat.ExpatError as e:
            out.fail(("output-not-well-formed-xml", fmt), f"{fmt}: {e}\n output={text[:800]!r}")
            return out
    else:
        try:
            if fmt == "hext":
                for line in text.splitlines():
                    if line.strip():
                        json.loads(line)
            else:
                json.loads(text)
        except ValueError as e:
            out.fail(("output-not-json", fmt), f"{fmt}: {e}\n output={text[:800]!r}")
            return out
    out.nontrivial = len(want) >= 2
    out.cls("out:" + fmt, "size:%d" % min(len(want), 5))
    return out


@st.composite
def output_cases(draw, tier):
    fmt = draw(st.sampled_from(["nt", "nt", "nquads", "nquads", "xml", "pretty-xml", "trix", "json-ld", "hext"]))
    xmlish = fmt in ("xml", "pretty-xml", "trix")
    g = draw(gg.graphs(max_triples=8, xml_safe=xmlish, lists=draw(st.integers(0, 3)) == 0, malformed_lists=False, rich_iris=True))
    triples = g[0]
    if fmt in ("nquads", "trix"):
        names = [None, None, ["u", "http://ex.org/g1"], ["u", "urn:ex:g#2"]] + ([["b", "gb"]] if fmt == "nquads" else [])
        return {"format": fmt, "quads": [t + [draw(st.sampled_from(names))] for t in triples]}
    return {"format": fmt, "triples": triples}


SUBCHECKS = [Sub("ntriples", lambda tier: nt_cases(tier), run_nt, {"quick": 2500, "thorough": 100000}),
             Sub("output", lambda tier: output_cases(tier), run_output, {"quick": 2500, "thorough": 100000})]


# ---------------------------------------------------------------- Turtle / TriG, forward
NUM_VARIANTS = [("+1", "integer"), ("-0", "integer"), ("007", "integer"), ("-.5", "decimal"), ("+1.50", "decimal"), (".5", "decimal"), ("1e0", "double"),
                ("1.E-3", "double"), (".1e+2", "double"), ("-1.5E3", "double"), ("1E0", "double"), ("+0.0e0", "double")]


def jt(x):
    """JSON term -> identity tuple"""
    return key(T(x))


@st.composite
def ttl_nodes(draw, depth, subject=False):
    k = draw(st.integers(0, 11))
    if subject:
        if k <= 6:
            return ["t", draw(st.one_of(gt.iris(), gt.iris(rich=False)))]
        if k <= 8:
            return ["t", draw(gt.bnodes())]
        if k == 9 and depth > 0:
            return ["anon", draw(ttl_pol(depth - 1, min_size=0))]
        if k == 10 and depth > 0:
            return ["coll", draw(st.lists(ttl_nodes(depth - 1), max_size=3))]
        return ["t", draw(gt.iris(rich=False))]
    if k <= 2:
        return ["t", draw(gt.iris())]
    if k == 3:
        return ["t", draw(gt.bnodes())]
    if k <= 6:
        return ["t", draw(st.one_of(gt.literals(), gt.falsy_literals()))]
    if k == 7:
        tok, dt = draw(st.sampled_from(NUM_VARIANTS))
        return ["raw", tok, ["l", tok, None, gt.XSD + dt]]
    if k == 8 and depth > 0:
        return ["anon", draw(ttl_pol(depth - 1, min_size=0))]
    if k == 9 and depth > 0:
        return ["coll", draw(st.lists(ttl_nodes(depth - 1), max_size=3))]
    return ["t", draw(st.one_of(gt.plain_literals(), gt.iris(rich=False)))]


@st.composite
def ttl_pol(draw, depth, min_size=1):
    preds = st.one_of(gt.iris(), gt.iris(rich=False), st.just(["u", sx.RDF + "type"]))
    return draw(st.lists(st.tuples(preds, st.lists(ttl_nodes(depth), min_size=1, max_size=3)).map(list), min_size=min_size, max_size=3))


@st.composite
def ttl_cases(draw, tier):
    trig = draw(st.booleans())
    depth = 2
    stmt = st.tuples(ttl_nodes(depth, subject=True), ttl_pol(depth)).map(list)
    if trig:
        names = [None, None, ["u", "http://ex.org/g1"], ["u", "urn:ex:g#2"], ["b", "gb"], ["u", "http://ex.org/a/g"]]
        blocks = draw(st.lists(st.tuples(st.sampled_from(names), st.lists(stmt, min_size=0, max_size=3)).map(list), min_size=1, max_size=4))
    else:
        blocks = [[None, draw(st.lists(stmt, min_size=1, max_size=4))]]
    modes = ["str"] + draw(st.lists(st.sampled_from(MODES[1:]), min_size=1, max_size=2, unique=True))
    return {"syntax": "trig" if trig else "turtle", "blocks": blocks, "choices": draw(st.lists(st.integers(0, 999), min_size=60, max_size=120)), "modes": modes}


def clean_pol(pl):
    """(the shrinker may empty an object list)"""
    return [[p, objs] for p, objs in pl if objs]


def ast_node(n):
    if n[0] == "t":
        return ("t", jt(n[1]))
    if n[0] == "raw":
        return ("raw", n[1], jt(n[2]))  # (the meaning of a numeric token is its RDFLib-normal lexical form: value mapping is C09's subject)
    if n[0] == "anon":
        return ("anon", [(jt(p), [ast_node(o) for o in objs]) for p, objs in clean_pol(n[1])])
    return ("coll", [ast_node(m) for m in n[1]])


def run_ttl(case):
    out = Out()
    blocks = []
    for g, stmts in case["blocks"]:
        sts = []
        for s, pl in stmts:
            s2 = ast_node(s)
            pl2 = [(jt(p), [ast_node(o) for o in objs]) for p, objs in clean_pol(pl)]
            if not pl2 and not (s2[0] == "anon" and s2[1]):
                continue
            sts.append((s2, pl2))
        blocks.append((jt(g) if g is not None else None, sts))
    trig = case["syntax"] == "trig"
    c = sx.Chooser(case["choices"])
    quads = sx.eval_doc(blocks)
    doc = sx.TurtleWriter(c, trig=trig).document(blocks)
    want = quads if trig else {q[:3] for q in quads}
    res = parse_modes(doc, case["syntax"], trig, case["modes"])
    if not judge(out, res, want, case["syntax"], doc, c.features, case):
        return out
    out.nontrivial = len(c.features) >= 2 and bool(want)
    out.cls("syntax:" + case["syntax"], *["f:" + f for f in sorted(c.features)], "features:%d" % min(len(c.features), 9))
    return out


SUBCHECKS.append(Sub("turtle", lambda tier: ttl_cases(tier), run_ttl, {"quick": 3000, "thorough": 150000}, weight=2))


# ---------------------------------------------------------------- RDF/XML, forward
XML_BNODES = ["a", "b1", "x", "n_1", "a.b", "a-b", "é"]
NICE_PREDS = ["http://ex.org/ns#p", "http://ex.org/ns#q", "http://ex.org/a/name", "http://purl.org/dc/terms/title", "urn:ex:p", "http://ex.org/ns#p.q-r_1",
              "http://bücher.example/#é", sx.RDF + "value", "http://www.w3.org/2000/01/rdf-schema#label"]


def xml_pred():
    return st.one_of(st.sampled_from(NICE_PREDS), st.sampled_from(NICE_PREDS),
                     gt.iris().map(lambda t: t[1]).filter(lambda i: sx.xml_split(i) is not None and not any(ch in sx.xml_split(i)[1] for ch in "%()")))


@st.composite
def xml_nodes(draw, depth):
    s = draw(st.one_of(gt.iris(), gt.iris(rich=False), st.sampled_from(XML_BNODES).map(lambda l: ["b", l]), st.none(),
                       st.sampled_from(["http://ex.org/doc#id1", "http://ex.org/doc#b", "http://ex.org/a/doc#é.1"]).map(lambda i: ["u", i])))
    typ = draw(st.one_of(st.none(), st.none(), xml_pred(), st.just("http://ex.org/ns#Class")))
    lang = draw(st.one_of(st.none(), st.none(), st.none(), st.sampled_from(["en", "de", "en-US"])))
    props = []
    lit = st.one_of(gt.literals(xml_safe=True), gt.falsy_literals(), gt.plain_literals(xml_safe=True))
    n_li = 0
    for _ in range(draw(st.integers(0, 4))):
        k = draw(st.sampled_from(["lit", "lit", "attr", "res", "res", "node", "ptres", "ptcoll", "li"]))
        p = draw(xml_pred())
        if k == "lit":
            if lang and draw(st.booleans()):
                # a literal in the language that is in scope on the node element
                props.append(["lit", p, ["l", draw(gt.strings(xml_safe=True)), lang, None]])
            else:
                props.append(["lit", p, draw(lit)])
        elif k == "attr":
            props.append(["attr", p, draw(gt.plain_literals(xml_safe=True))])
        elif k == "res":
            props.append(["res", p, draw(st.one_of(gt.iris(), st.sampled_from(XML_BNODES).map(lambda l: ["b", l])))])
        elif k == "node" and depth > 0:
            props.append(["node", p, draw(xml_nodes(depth - 1))])
        elif k == "ptres" and depth > 0:
            inner = draw(xml_nodes(depth - 1))["props"]
            props.append(["ptres", p, inner])
        elif k == "ptcoll" and depth > 0:
            props.append(["ptcoll", p, draw(st.lists(xml_nodes(0), max_size=3))])
        elif k == "li":
            props.append(["li", draw(st.one_of(lit, gt.iris()))])
    # property attributes must be unique per element and must not repeat a predicate used as attribute
    seen = set()
    out = []
    for pr in props:
        if pr[0] == "attr":
            if pr[1] in seen:
                pr = ["lit"] + pr[1:]
            seen.add(pr[1])
        out.append(pr)
    return {"s": s, "type": typ, "lang": lang, "props": out}


@st.composite
def xml_cases(draw, tier):
    nodes = draw(st.lists(xml_nodes(2), min_size=1, max_size=3))
    modes = ["str"] + draw(st.lists(st.sampled_from(MODES[1:]), min_size=1, max_size=2, unique=True))
    enc = draw(st.sampled_from([None, None, None, "ISO-8859-1", "UTF-16", "utf-8"]))
    if enc:
        modes = draw(st.lists(st.sampled_from(["bytes", "BytesIO", "Path", "location"]), min_size=1, max_size=3, unique=True))
    return {"syntax": "xml", "nodes": nodes, "choices": draw(st.lists(st.integers(0, 999), min_size=80, max_size=140)), "modes": modes, "encoding": enc}


def xml_ast(n):
    def prop(pr):
        k = pr[0]
        if k in ("lit", "attr", "res"):
            return (k, pr[1], jt(pr[2]))
        if k == "node":
            return (k, pr[1], xml_ast(pr[2]))
        if k == "ptres":
            return (k, pr[1], [prop(x) for x in pr[2]])
        if k == "ptcoll":
            return (k, pr[1], [xml_ast(m) for m in pr[2]])
        return ("li", jt(pr[1]))
    return {"s": jt(n["s"]) if n["s"] is not None else None, "type": n["type"], "lang": n["lang"], "props": [prop(x) for x in n["props"]]}


def xml_iris(n, acc):
    if n["s"] is not None and n["s"][0] == "u":
        acc.append(n["s"][1])
    if n["type"]:
        acc.append(n["type"])
    for pr in n["props"]:
        if pr[0] != "li":
            acc.append(pr[1])
        if pr[0] == "node":
            xml_iris(pr[2], acc)
        elif pr[0] == "ptcoll":
            for m in pr[2]:
                xml_iris(m, acc)
        elif pr[0] == "ptres":
            xml_iris({"s": None, "type": None, "props": pr[2]}, acc)
        elif pr[0] == "res" and pr[2][0] == "u":
            acc.append(pr[2][1])
    return acc


def run_xml(case):
    out = Out()
    nodes = [xml_ast(n) for n in case["nodes"]]
    c = sx.Chooser(case["choices"])
    want = sx.eval_rdfxml(nodes)
    iris = []
    for n in nodes:
        xml_iris(n, iris)
    enc = case.get("encoding")
    try:
        doc = sx.RDFXMLWriter(c, encoding=enc).document(nodes, list(dict.fromkeys(iris)))
    except AssertionError:
        out.cls("invalid-shape")
        return out
    modes = case["modes"]
    if enc:
        # a document in another encoding exists as bytes only
        try:
            doc.encode(enc)
        except UnicodeEncodeError:
            out.cls("not-encodable-in-" + enc.lower())
            return out
        modes = [m for m in modes if m not in ("str", "StringIO")] or ["bytes"]
    # the document must at least be well-formed XML for the standard library (self-test of the writer)
    p = xml.parsers.expat.ParserCreate(namespace_separator=" ")
    try:
        p.Parse(doc.encode(enc or "utf-8"), True)
    except xml.parsers.expat.ExpatError as e:
        raise AssertionError(f"harness RDF/XML writer produced ill-formed XML: {e}\n{doc}")
    res = parse_modes(doc, "xml", False, modes, encoding=enc or "utf-8")
    if not judge(out, res, want, "xml", doc, c.features, case):
        return out
    out.nontrivial = len(c.features) >= 2 and bool(want)
    out.cls("syntax:xml", *["f:" + f for f in sorted(c.features)], "features:%d" % min(len(c.features), 9))
    return out


SUBCHECKS.append(Sub("rdfxml", lambda tier: xml_cases(tier), run_xml, {"quick": 2500, "thorough": 100000}))


# ---------------------------------------------------------------- JSON-LD, forward
JL_LANGS = ["en", "de", "en-us"]


@st.composite
def jl_values(draw, depth):
    k = draw(st.integers(0, 9))
    if k <= 3:
        return ["lit", draw(st.one_of(gt.literals(unknown=True), gt.falsy_literals(), gt.plain_literals()))]
    if k <= 5:
        return ["ref", draw(st.one_of(gt.iris(), gt.iris(rich=False), gt.bnodes()))]
    if k == 6 and depth > 0:
        return ["node", draw(jl_nodes(depth - 1))]
    if k == 7 and depth > 0:
        return ["list", draw(st.lists(jl_values(0), max_size=3))]
    return ["lit", draw(gt.plain_literals())]


@st.composite
def jl_nodes(draw, depth):
    ident = draw(st.one_of(gt.iris(), gt.iris(rich=False), gt.bnodes(), st.none()))
    preds = st.one_of(st.sampled_from(NICE_PREDS), gt.iris().map(lambda t: t[1]))
    types = draw(st.lists(st.one_of(st.just("http://ex.org/ns#Class"), preds), max_size=2, unique=True))
    one_list = st.lists(jl_values(0), max_size=3).map(lambda xs: [["list", xs]])
    props = draw(st.lists(st.tuples(preds, st.one_of(st.lists(jl_values(depth), min_size=1, max_size=3), st.lists(jl_values(depth), min_size=1, max_size=3),
                                                      one_list if depth > 0 else st.lists(jl_values(0), min_size=1, max_size=2))).map(list),
                          max_size=3, unique_by=lambda x: x[0]))
    rev = []
    if depth > 0 and draw(st.integers(0, 5)) == 0:
        rev = [[draw(preds), draw(st.lists(jl_nodes(0), min_size=1, max_size=2))]]
    return {"id": ident, "types": types, "props": props, "reverse": rev}


@st.composite
def jl_cases(draw, tier):
    default = draw(st.lists(jl_nodes(2), min_size=0, max_size=3))
    graphs = []
    if draw(st.integers(0, 2)) == 0:
        names = [["u", "http://ex.org/g1"], ["u", "urn:ex:g#2"], ["b", "gb"]]
        graphs = draw(st.lists(st.tuples(st.sampled_from(names), st.lists(jl_nodes(1), min_size=1, max_size=2)).map(list), min_size=1, max_size=2, unique_by=lambda x: repr(x[0])))
    modes = ["str"] + draw(st.lists(st.sampled_from(MODES[1:]), min_size=1, max_size=2, unique=True))
    return {"syntax": "json-ld", "doc": {"default": default, "graphs": graphs}, "choices": draw(st.lists(st.integers(0, 999), min_size=80, max_size=140)), "modes": modes}


def jl_ast(n):
    def val(v):
        if v[0] in ("lit", "ref"):
            return (v[0], jt(v[1]))
        if v[0] == "node":
            return ("node", jl_ast(v[1]))
        return ("list", [val(m) for m in v[1]])
    return {"id": jt(n["id"]) if n["id"] is not None else None, "types": list(n["types"]),
            "props": [(p, [val(v) for v in vals]) for p, vals in n["props"] if vals],
            "reverse": [(p, [jl_ast(m) for m in subs]) for p, subs in n.get("reverse", []) if subs]}


def jl_collect(n, iris, preds, langs, dts):
    if n["id"] is not None and n["id"][0] == "u":
        iris.append(n["id"][1])
    for t in n["types"]:
        iris.append(t)
        preds.append(t)

    def val(v):
        if v[0] == "lit":
            if v[1][3]:
                langs.append(v[1][3])
            if v[1][2]:
                dts.append(v[1][2])
                iris.append(v[1][2])
        elif v[0] == "ref":
            if v[1][0] == "u":
                iris.append(v[1][1])
        elif v[0] == "node":
            jl_collect(v[1], iris, preds, langs, dts)
        else:
            for m in v[1]:
                val(m)
    for p, vals in n["props"]:
        iris.append(p)
        preds.append(p)
        for v in vals:
            val(v)
    for p, subs in n["reverse"]:
        iris.append(p)
        preds.append(p)
        for m in subs:
            jl_collect(m, iris, preds, langs, dts)


def run_jsonld(case):
    out = Out()
    doc = {"default": [jl_ast(n) for n in case["doc"]["default"]], "graphs": [(jt(g), [jl_ast(n) for n in nodes]) for g, nodes in case["doc"]["graphs"]]}
    c = sx.Chooser(case["choices"])
    want = sx.eval_jsonld(doc)
    iris, preds, langs, dts = [], [], [], []
    for n in doc["default"]:
        jl_collect(n, iris, preds, langs, dts)
    for g, nodes in doc["graphs"]:
        if g[0] == "u":
            iris.append(g[1])
        for n in nodes:
            jl_collect(n, iris, preds, langs, dts)
    uniq = lambda xs: list(dict.fromkeys(xs))  # noqa: E731
    text = sx.JSONLDWriter(c).document(doc, uniq(iris), uniq(preds), uniq(langs), uniq(dts))
    res = parse_modes(text, "json-ld", True, case["modes"])
    if not judge(out, res, want, "json-ld", text, c.features, case):
        return out
    out.nontrivial = len(c.features) >= 2 and bool(want)
    out.cls("syntax:json-ld", *["f:" + f for f in sorted(c.features)], "features:%d" % min(len(c.features), 9))
    return out


SUBCHECKS.append(Sub("jsonld", lambda tier: jl_cases(tier), run_jsonld, {"quick": 2000, "thorough": 100000}))


# ---------------------------------------------------------------- a small corpus of hand-written spellings (one per repaired finding), every mode
X = gt.XSD
CORPUS = [
    ("nt", '<urn:s><urn:p><urn:o>.\n_:s<urn:p>"x".\n<urn:s><urn:p>_:o.', [["u:urn:s", "u:urn:p", "u:urn:o"], ["b:s", "u:urn:p", "l:x"], ["u:urn:s", "u:urn:p", "b:o"]]),
    ("nt", '<urn\\u003As> <urn:p><u\\u0072n:o> .', [["u:urn:s", "u:urn:p", "u:urn:o"]]),
    ("nquads", '<a\\u003Ab><c:d><e:f><g:h>.', [["u:a:b", "u:c:d", "u:e:f", "u:g:h"]]),
    ("nt", '_:é <urn:p> _:a.b .\n_:1 <urn:p> _:é .', [["b:é", "u:urn:p", "b:a.b"], ["b:1", "u:urn:p", "b:é"]]),
    ("turtle", '@base <http://ex.org/ns#frag> . <#x> <p> <> .', [["u:http://ex.org/ns#x", "u:http://ex.org/p", "u:http://ex.org/ns"]]),
    ("turtle", '@base <http://ex.org/a/b> . <#a:b> <?x=a:b> <c> .', [["u:http://ex.org/a/b#a:b", "u:http://ex.org/a/b?x=a:b", "u:http://ex.org/a/c"]]),
    ("turtle", '@base <http://ex.org/a/b?q=/z> . <?y> <c> <#f> .', [["u:http://ex.org/a/b?y", "u:http://ex.org/a/c", "u:http://ex.org/a/b?q=/z#f"]]),
    ("turtle", '@prefix ex: <http://ex.org/> . ex:a ex:p\\. ex:b\\.\n. ex:c ex:p ex:d.', [["u:http://ex.org/a", "u:http://ex.org/p.", "u:http://ex.org/b."], ["u:http://ex.org/c", "u:http://ex.org/p", "u:http://ex.org/d"]]),
    ("turtle", '@base <http://ex.org/d/> . <s> <=p> <o> ; <=> <o> .', [["u:http://ex.org/d/s", "u:http://ex.org/d/=p", "u:http://ex.org/d/o"], ["u:http://ex.org/d/s", "u:http://ex.org/d/=", "u:http://ex.org/d/o"]]),
    ("turtle", '<urn:s> <urn:p> """a\rb\r\nc""" .', [["u:urn:s", "u:urn:p", "l:a\rb\r\nc"]]),
    ("trig", '@prefix : <urn:> . :g { :s :p """x\ry""" } _:b { _:b :p _:b }', [["u:urn:s", "u:urn:p", "l:x\ry", "u:urn:g"], ["b:b", "u:urn:p", "b:b", "b:b"]]),
    ("xml", '<rdf:RDF xmlns:rdf="http://www.w3.org/1999/02/22-rdf-syntax-ns#" xmlns:e="urn:e:" xml:base="http://ex.org/b/c"><rdf:Description rdf:about="file:////x//y"><e:p rdf:resource="http://ex.org/q?"/><e:p rdf:resource="d?"/></rdf:Description></rdf:RDF>',
     [["u:file:////x//y", "u:urn:e:p", "u:http://ex.org/q?"], ["u:file:////x//y", "u:urn:e:p", "u:http://ex.org/b/d?"]]),
    ("json-ld", '{"@context": {"@base": "http://ex.org/b/c"}, "@id": "//ex.org/a//b", "urn:p": {"@id": "/x//y"}}', [["u:http://ex.org/a//b", "u:urn:p", "u:http://ex.org/x//y"]]),
    ("json-ld", '{"@id":"urn:a","urn:p":"é😀"}', [["u:urn:a", "u:urn:p", "l:é😀"]]),
    ("turtle", '\ufeff<urn:a> <urn:p> "x\ufeff" .', [["u:urn:a", "u:urn:p", "l:x\ufeff"]]),
    ("trig", '\ufeff<urn:g> { <urn:a> <urn:p> "x" }', [["u:urn:a", "u:urn:p", "l:x", "u:urn:g"]]),
    ("xml@ISO-8859-1", '<?xml version="1.0" encoding="ISO-8859-1"?><rdf:RDF xmlns:rdf="http://www.w3.org/1999/02/22-rdf-syntax-ns#" xmlns:e="urn:e:"><rdf:Description rdf:about="urn:a"><e:p>caf\u00e9</e:p></rdf:Description></rdf:RDF>',
     [["u:urn:a", "u:urn:e:p", "l:caf\u00e9"]]),
]


def corpus_term(s):
    if s.startswith("u:"):
        return ("u", s[2:])
    if s.startswith("b:"):
        return ("b", s[2:])
    return ("l", s[2:], None, None)


def run_corpus(case):
    out = Out()
    fmt, doc, exp = CORPUS[case["i"]]
    enc = "utf-8"
    if "@" in fmt:
        fmt, enc = fmt.split("@")
    dataset = fmt in ("nquads", "trig", "json-ld")
    want = set()
    for t in exp:
        q = tuple(corpus_term(x) for x in t)
        if dataset:
            q = q if len(q) == 4 else q + (None,)
        want.add(q)
    res = parse_modes(doc, fmt, dataset, MODES if enc == "utf-8" else ["bytes", "BytesIO", "Path", "location"], encoding=enc)
    if not judge(out, res, want, fmt, doc, {"corpus"}, case):
        return out
    out.nontrivial = True
    out.cls("corpus:" + fmt)
    return out


SUBCHECKS.append(Sub("corpus", lambda tier: st.integers(0, len(CORPUS) - 1).map(lambda i: {"i": i}), run_corpus, {"quick": len(CORPUS), "thorough": len(CORPUS)},
                     max_shards=1, enum=lambda tier: ({"i": i} for i in range(len(CORPUS)))))
