"""C18 — Rollback restores, commit keeps: the auditable store is atomic over any history.

(a) generated transaction histories on Graph / ConjunctiveGraph views over AuditableStore(Memory) with generated initial
content in up to 3 contexts, compared with a model; (b) two wrappers over one base store, disjoint triple pools, generated
interleaving owned by the harness, roll back one; (c) exhaustive enumeration of all short histories over a 7-letter alphabet."""
from __future__ import annotations

import itertools
import warnings

from hypothesis import strategies as st

from rdflib import BNode, ConjunctiveGraph, Graph, Literal, URIRef
from rdflib.plugins.stores.auditable import AuditableStore
from rdflib.plugins.stores.memory import Memory

from pbt.codec import key, tkey
from pbt.core import Out, Sub, is_err, sut
from pbt.gen.util import sized_lists

RULE = ("(a) histories of <=30/60 ops {add, remove exact, remove with wildcards, remove without context, addN, set, commit, rollback} over 3 "
        "contexts and a 2x2x3 triple pool with random initial content; (b) two wrappers on one base store with disjoint subjects, generated "
        "interleaving, roll back one then the other commits/rolls back; (c) ALL histories up to length 4 (quick) / 5 (thorough) over "
        "{add t, rm t, rm (s,p,*), add u, rm u, rm (s,*,*) in all contexts, add t in 2nd context} x initial presence of t,u x {rollback, commit}. "
        "Non-trivial = one triple touched >=2 times in one transaction with alternating add/remove, or a wildcard remove covering an earlier add; "
        "distinct by SHA-1 of the case JSON.")
ASSUMPTIONS = ["two-wrapper interleavings are at operation granularity in one thread (the harness owns the schedule)",
               "context identifiers are non-empty IRIs/blank nodes"]

S = [URIRef("urn:a"), URIRef("urn:b"), BNode("c"), URIRef("urn:d")]
P = [URIRef("urn:p"), URIRef("urn:q")]
O = [Literal(0), Literal(""), URIRef("urn:o")]
CTX = [URIRef("urn:g1"), URIRef("urn:g2"), BNode("g3")]


def matches(pat, tk):
    return all(p is None or p == x for p, x in zip(pat, tk))


def pick(pool, i):
    return None if i < 0 else pool[i % len(pool)]


def base_content(base):
    with warnings.catch_warnings():
        warnings.simplefilter("ignore")
        cg = ConjunctiveGraph(store=base)
        return {(tkey((s, p, o)), key(c.identifier)) for s, p, o, c in cg.quads((None, None, None))}


class Tx:
    """one AuditableStore wrapper with its views and model bookkeeping"""

    def __init__(self, base):
        self.store = AuditableStore(base)
        with warnings.catch_warnings():
            warnings.simplefilter("ignore")
            self.cg = ConjunctiveGraph(store=self.store)
        self.graphs = [Graph(store=self.store, identifier=c) for c in CTX]
        self.touch = {}  # quad -> list of 'a'/'r' effective ops in this transaction
        self.nontrivial = False

    def note(self, quad, kind):
        h = self.touch.setdefault(quad, [])
        if h and h[-1] != kind:
            self.nontrivial = True
        h.append(kind)


def apply_op(tx, op, model, out, where, subj=S):
    """apply op to wrapper and model (model: set of (tkey, ctxkey)). returns False on failure."""
    name = op[0]
    r = None
    if name == "add":
        t = (pick(subj, op[1]), pick(P, op[2]), pick(O, op[3])); ci = op[4] % len(CTX)
        q = (tkey(t), key(CTX[ci]))
        if q not in model:
            tx.note(q, "a")
        model.add(q)
        r = sut(tx.graphs[ci].add, t)
    elif name == "addN":
        quads = []
        for j in op[1]:
            t = (pick(subj, j[0]), pick(P, j[1]), pick(O, j[2])); ci = j[3] % len(CTX)
            q = (tkey(t), key(CTX[ci]))
            if q not in model:
                tx.note(q, "a")
            model.add(q)
            quads.append(t + (tx.graphs[ci],))
        r = sut(tx.cg.addN, quads)
    elif name == "set":
        t = (pick(subj, op[1]), pick(P, op[2]), pick(O, op[3])); ci = op[4] % len(CTX)
        ck = key(CTX[ci])
        for q in [q for q in model if q[1] == ck and q[0][0] == key(t[0]) and q[0][1] == key(t[1])]:
            model.discard(q); tx.note(q, "r")
        q = (tkey(t), ck)
        tx.note(q, "a"); model.add(q)
        r = sut(tx.graphs[ci].set, t)
    elif name in ("rm", "rmall"):
        s = pick(subj, op[1]) if op[1] >= 0 or name == "rm2w" else None
        pat = (pick(subj, op[1]), pick(P, op[2]), pick(O, op[3]))
        pk = tuple(None if x is None else key(x) for x in pat)
        wild = None in pat
        if name == "rm":
            ci = op[4] % len(CTX); ck = key(CTX[ci])
            gone = [q for q in model if q[1] == ck and matches(pk, q[0])]
        else:
            gone = [q for q in model if matches(pk, q[0])]
        for q in gone:
            if wild and tx.touch.get(q) and tx.touch[q][-1] == "a":
                tx.nontrivial = True
            model.discard(q); tx.note(q, "r")
        r = sut(tx.graphs[ci].remove, pat) if name == "rm" else sut(tx.cg.remove, pat)
    if is_err(r):
        out.fail((name + "-raises", r.kind, r.site), f"{where}: {r!r}")
        return False
    return True


def check_reads(tx, model, out, where, restrict=None):
    got = sut(lambda: {(tkey((s, p, o)), key(c.identifier)) for s, p, o, c in tx.cg.quads((None, None, None))})
    if is_err(got):
        out.fail(("read-raises", got.kind, got.site), f"{where}: {got!r}")
        return False
    if got != model:
        out.fail(("read-through-wrapper",), f"{where}: extra={got - model} missing={model - got}")
        return False
    for g, c in zip(tx.graphs, CTX):
        exp = {q[0] for q in model if q[1] == key(c)}
        r = sut(lambda: ({tkey(t) for t in g}, len(g)))
        if is_err(r) or r[0] != exp or r[1] != len(exp):
            out.fail(("graph-view-through-wrapper",), f"{where}: {c}: {r!r} expected {exp}")
            return False
    return True


def load_init(base, init, subj=S):
    g = [Graph(store=base, identifier=c) for c in CTX]
    for j in init:
        g[j[3] % len(CTX)].add((pick(subj, j[0]), pick(P, j[1]), pick(O, j[2])))


def run_single(case):
    out = Out()
    base = Memory()
    load_init(base, case["init"])
    tx = Tx(base)
    begin = base_content(base)
    model = set(begin)
    ops = list(case["ops"]) + [[case.get("final", "rollback")], ["rollback"]]
    for step, op in enumerate(ops):
        where = f"step {step} {op}"
        if op[0] in ("commit", "rollback"):
            r = sut(tx.cg.commit if op[0] == "commit" else tx.cg.rollback)
            if is_err(r):
                out.fail((op[0] + "-raises", r.kind, r.site), f"{where}: {r!r}")
                return out
            if op[0] == "commit":
                begin = set(model)
            else:
                model = set(begin)
            got = base_content(base)
            if got != begin:
                out.fail(("after-" + op[0], "lost" if begin - got else "resurrected/extra"),
                         f"{where}: base store extra={got - begin} missing={begin - got}")
                return out
            out.nontrivial |= tx.nontrivial
            tx.touch = {}
            tx.nontrivial = False
        else:
            if not apply_op(tx, op, model, out, where):
                return out
        if not check_reads(tx, model, out, where):
            return out
    out.cls(*{"op:" + op[0] for op in case["ops"]})
    return out


def run_two(case):
    """two wrappers: wrapper k only touches subjects S[2k:2k+2]."""
    out = Out()
    base = Memory()
    subj = [S[0:2], S[2:4]]
    load_init(base, case["init"])
    txs = [Tx(base), Tx(base)]
    begin = base_content(base)
    models = [set(), set()]  # per-wrapper view of its own quads (disjoint by subject)
    own = lambda k, q: q[0][0] in {key(x) for x in subj[k]}  # noqa: E731
    cur = set(begin)
    for step, (k, op) in enumerate(case["ops"]):
        k = k % 2
        where = f"step {step} w{k} {op}"
        if op[0] in ("rm", "rmall") and op[1] < 0:
            op = [op[0], 0] + list(op[2:])  # subject stays bound so the pools stay disjoint
        mine = {q for q in cur if own(k, q)}
        rest = cur - mine
        if not apply_op(txs[k], op, mine, out, where, subj=subj[k]):
            return out
        cur = rest | mine
        got = base_content(base)
        if got != cur:
            out.fail(("two-wrappers-content",), f"{where}: extra={got - cur} missing={cur - got}")
            return out
    first = case["rollback_first"] % 2
    r = sut(txs[first].cg.rollback)
    if is_err(r):
        out.fail(("rollback-raises", r.kind, r.site), repr(r))
        return out
    exp = {q for q in begin if own(first, q)} | {q for q in cur if not own(first, q)}
    got = base_content(base)
    if got != exp:
        out.fail(("rollback-one-of-two", "other-wrapper-disturbed" if {q for q in got ^ exp if not own(first, q)} else "own-not-restored"),
                 f"after rollback of w{first}: extra={got - exp} missing={exp - got}")
        return out
    other = 1 - first
    if case["other_final"] == "rollback":
        sut(txs[other].cg.rollback)
        exp = set(begin)
    else:
        sut(txs[other].cg.commit)
        sut(txs[other].cg.rollback)
    got = base_content(base)
    if got != exp:
        out.fail(("second-wrapper-" + case["other_final"],), f"extra={got - exp} missing={exp - got}")
        return out
    out.nontrivial = txs[0].nontrivial or txs[1].nontrivial or (len({k % 2 for k, _ in case["ops"]}) == 2)
    return out


# ---- exhaustive enumeration
ALPHA = [["add", 0, 0, 0, 0], ["rm", 0, 0, 0, 0], ["rm", 0, 0, -1, 0], ["add", 0, 0, 1, 0], ["rm", 0, 0, 1, 0], ["rmall", 0, -1, -1], ["add", 0, 0, 0, 1]]


def enum_cases(tier):
    maxlen = 5 if tier == "thorough" else 4
    for n in range(1, maxlen + 1):
        for seq in itertools.product(range(len(ALPHA)), repeat=n):
            for ini in range(4):
                init = ([[0, 0, 0, 0]] if ini & 1 else []) + ([[0, 0, 1, 0]] if ini & 2 else [])
                for final in ("rollback", "commit"):
                    yield {"init": init, "ops": [ALPHA[i] for i in seq], "final": final}


def op_strategy():
    si, pi, oi, ci = st.integers(0, 3), st.integers(0, 1), st.integers(0, 2), st.integers(0, 2)
    wsi, wpi, woi = st.integers(-1, 3), st.integers(-1, 1), st.integers(-1, 2)
    return st.one_of(
        st.tuples(st.just("add"), si, pi, oi, ci), st.tuples(st.just("add"), si, pi, oi, ci),
        st.tuples(st.just("rm"), si, pi, oi, ci), st.tuples(st.just("rm"), wsi, wpi, woi, ci),
        st.tuples(st.just("rmall"), wsi, wpi, woi), st.tuples(st.just("set"), si, pi, oi, ci),
        st.tuples(st.just("addN"), st.lists(st.tuples(si, pi, oi, ci).map(list), max_size=3)),
    ).map(list)


def single_strategy(tier):
    big = tier == "thorough"
    op = st.one_of(op_strategy(), op_strategy(), op_strategy(), st.sampled_from([["commit"], ["rollback"]]))
    init = st.lists(st.tuples(st.integers(0, 3), st.integers(0, 1), st.integers(0, 2), st.integers(0, 2)).map(list), max_size=8)
    return st.fixed_dictionaries({"init": init, "ops": sized_lists(op, 1, 60 if big else 30), "final": st.sampled_from(["rollback", "commit"])})


def two_strategy(tier):
    big = tier == "thorough"
    init = st.lists(st.tuples(st.integers(0, 3), st.integers(0, 1), st.integers(0, 2), st.integers(0, 2)).map(list), max_size=8)
    step = st.tuples(st.integers(0, 1), op_strategy().filter(lambda o: o[0] != "addN" or True)).map(list)
    return st.fixed_dictionaries({"init": init, "ops": sized_lists(step, 1, 40 if big else 20), "rollback_first": st.integers(0, 1),
                                  "other_final": st.sampled_from(["rollback", "commit"])})


SUBCHECKS = [
    Sub("single", single_strategy, run_single, {"quick": 20000, "thorough": 400000}, weight=7),
    Sub("two", two_strategy, run_two, {"quick": 10000, "thorough": 200000}, weight=4),
    Sub("exhaustive", None, run_single, {"quick": 0, "thorough": 0}, weight=5, enum=enum_cases),
]
