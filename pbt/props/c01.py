"""C01 — A Graph is exactly the set of triples its history implies, under every pattern.

Generated histories (add, addN, remove with wildcards, set, +=, -=, binary + - * ^, open/step/drain iterators)
over a small term pool with falsy members are applied to a rdflib Graph (default Memory store, SimpleMemory, or
Memory observed through a second Graph view) and to a Python set of identity tuples. After EVERY step: len, iteration
(duplicate-free), membership of every pool triple, and triples(pattern) for all 8 shapes x every pool binding."""
from __future__ import annotations

import itertools

from hypothesis import strategies as st

from rdflib import Graph
from rdflib.plugins.stores.memory import Memory, SimpleMemory

from pbt.codec import T, key, tkey
from pbt.core import Out, Sub, is_err, sut
from pbt.gen import terms as gt
from pbt.gen.util import sized_lists

RULE = ("histories of <=40 (quick) / <=80 (thorough) operations over a pool of 2-4 subjects x 2-3 predicates x 3-5 objects that always "
        "contains Literal(''), Literal(0), Literal(False) and a blank node, on {Memory, SimpleMemory, Memory through a second view}; "
        "full 8-shape observation after every step. Non-trivial = history re-adds a triple after a remove that deleted it, or steps an "
        "open iterator after a mutation, or operates on a falsy term; distinct by SHA-1 of the case JSON.")
ASSUMPTIONS = ["addN with a context whose identifier is equal-but-not-identical to the graph's is not generated (identity is documented)",
               "single-thread interleavings of iterator steps and mutations only",
               "model compares terms as (kind, lexical, datatype, lower(lang)) tuples"]

FALSY_KEYS = {("l", "", None, None), ("l", "0", gt.XSD + "integer", None), ("l", "false", gt.XSD + "boolean", None), ("u", "")}


def matches(pat, tk):
    return all(p is None or p == x for p, x in zip(pat, tk))


class World:
    def __init__(self, case):
        self.S = [T(j) for j in case["S"]] or [T(["u", "urn:s"])]
        self.P = [T(j) for j in case["P"]] or [T(["u", "urn:p"])]
        self.O = [T(j) for j in case["O"]] or [T(["l", "", None, None])]
        cfg = case["store"]
        self.cfg = cfg
        if cfg == "simple":
            self.g = Graph(store=SimpleMemory())
            self.obs = self.g
        else:
            self.g = Graph()
            self.obs = Graph(store=self.g.store, identifier=self.g.identifier) if cfg == "view" else self.g
        self.other = Graph()  # unrelated graph used as ignored addN context
        self.model = set()
        self.iters = []  # [iterator, pattern-keys, union-set, alive]

    def s(self, i):
        return None if i < 0 else self.S[i % len(self.S)]

    def p(self, i):
        return None if i < 0 else self.P[i % len(self.P)]

    def o(self, i):
        return None if i < 0 else self.O[i % len(self.O)]

    def t(self, j):
        return (self.s(j[0]), self.p(j[1]), self.o(j[2]))

    def pool_triples(self):
        return itertools.product(self.S, self.P, self.O)


def observe(w, out, where):
    g, model = w.obs, w.model
    n = sut(len, g)
    if is_err(n):
        out.fail(("len-raises", n.kind, n.site), f"{where}: {n!r}")
        return False
    if n != len(model):
        out.fail(("len",), f"{where}: len={n} model={len(model)}")
        return False
    lst = sut(lambda: [tkey(t) for t in g])
    if is_err(lst):
        out.fail(("iter-raises", lst.kind, lst.site), f"{where}: {lst!r}")
        return False
    if len(lst) != len(set(lst)):
        out.fail(("iter-duplicates",), f"{where}: {lst}")
        return False
    if set(lst) != model:
        out.fail(("iter-set", "extra" if set(lst) - model else "missing"), f"{where}: extra={set(lst) - model} missing={model - set(lst)}")
        return False
    for t in w.pool_triples():
        r = sut(lambda: t in g)
        if is_err(r):
            out.fail(("contains-raises", r.kind, r.site), f"{where}: {t} {r!r}")
            return False
        if r != (tkey(t) in model):
            out.fail(("contains", "false-positive" if r else "false-negative", "falsy" if any(k in FALSY_KEYS for k in tkey(t)) else "truthy"),
                     f"{where}: {t} in g = {r}")
            return False
    for s in [None] + w.S:
        for p in [None] + w.P:
            for o in [None] + w.O:
                pat = (s, p, o)
                pk = tuple(None if x is None else key(x) for x in pat)
                r = sut(lambda: [tkey(t) for t in g.triples(pat)])
                shape = "".join("b" if x is not None else "u" for x in pat)
                if is_err(r):
                    out.fail(("triples-raises", shape, r.kind, r.site), f"{where}: {pat} {r!r}")
                    return False
                exp = {tk for tk in model if matches(pk, tk)}
                if len(r) != len(set(r)):
                    out.fail(("triples-duplicates", shape), f"{where}: {pat} -> {r}")
                    return False
                if set(r) != exp:
                    falsy = any(k in FALSY_KEYS for k in pk if k is not None)
                    out.fail(("triples", shape, "extra" if set(r) - exp else "missing", "falsy" if falsy else "truthy"),
                             f"{where}: pattern {pat}: got {sorted(r, key=repr)} expected {sorted(exp, key=repr)}")
                    return False
                out.sub_evals += 1
    # convenience accessors on one pool binding
    s0, p0, o0 = w.S[0], w.P[0], w.O[0]
    for name, fn, exp in (
        ("subjects", lambda: {key(x) for x in g.subjects(p0, o0)}, {tk[0] for tk in model if tk[1] == key(p0) and tk[2] == key(o0)}),
        ("objects", lambda: {key(x) for x in g.objects(s0, p0)}, {tk[2] for tk in model if tk[0] == key(s0) and tk[1] == key(p0)}),
        ("predicates", lambda: {key(x) for x in g.predicates(s0, o0)}, {tk[1] for tk in model if tk[0] == key(s0) and tk[2] == key(o0)}),
    ):
        r = sut(fn)
        if is_err(r) or r != exp:
            out.fail((name,), f"{where}: {r!r} expected {exp}")
            return False
    return True


def run(case):
    out = Out()
    w = World(case)
    g = w.g
    removed_once = set()
    nt = False
    mutated_since_open = False
    for step, op in enumerate(case["ops"]):
        name = op[0]
        where = f"step {step} {op}"
        r = None
        touched = []
        if name == "add":
            t = w.t(op[1:4]); touched = [t]
            r = sut(g.add, t)
            w.model.add(tkey(t))
            nt |= tkey(t) in removed_once
        elif name == "addN":
            quads = []
            for q in op[1]:
                t = w.t(q[:3]); touched.append(t)
                c = q[3] % 3
                ctx = g if c == 0 else (Graph(store=g.store, identifier=g.identifier) if c == 1 else w.other)
                quads.append(t + (ctx,))
                if c != 2:
                    w.model.add(tkey(t)); nt |= tkey(t) in removed_once
            r = sut(g.addN, quads)
        elif name == "remove":
            pat = w.t(op[1:4]); touched = [pat]
            pk = tuple(None if x is None else key(x) for x in pat)
            gone = {tk for tk in w.model if matches(pk, tk)}
            removed_once |= gone
            w.model -= gone
            r = sut(g.remove, pat)
        elif name == "set":
            t = w.t(op[1:4]); touched = [t]
            gone = {tk for tk in w.model if tk[0] == key(t[0]) and tk[1] == key(t[1])}
            removed_once |= gone - {tkey(t)}
            w.model -= gone
            w.model.add(tkey(t))
            r = sut(g.set, t)
        elif name in ("iadd", "isub"):
            ts = [w.t(j) for j in op[1]]; touched = ts
            arg = ts
            if op[2]:
                arg = Graph()
                for t in ts:
                    arg.add(t)
            if name == "iadd":
                for t in ts:
                    nt |= tkey(t) in removed_once
                    w.model.add(tkey(t))
                r = sut(g.__iadd__, arg)
            else:
                for t in ts:
                    if tkey(t) in w.model:
                        removed_once.add(tkey(t))
                    w.model.discard(tkey(t))
                r = sut(g.__isub__, arg)
            if not is_err(r) and r is not g:
                out.fail((name, "does-not-return-self"), where)
                return out
            r = None if not is_err(r) else r
        elif name in ("iadd-self", "isub-self"):
            # the graph itself as the other operand: a set united with itself is itself, minus itself is empty
            touched = []
            if name == "isub-self":
                removed_once |= set(w.model)
                w.model = set()
            r = sut(g.__iadd__ if name == "iadd-self" else g.__isub__, g)
            if not is_err(r) and r is not g:
                out.fail((name, "does-not-return-self"), where)
                return out
            r = None if not is_err(r) else r
        elif name == "binop":
            ts = [w.t(j) for j in op[2]]; touched = ts
            h = Graph()
            for t in ts:
                h.add(t)
            hm = {tkey(t) for t in ts}
            sym = op[1]
            fn = {"+": g.__add__, "-": g.__sub__, "*": g.__mul__, "^": g.__xor__, "r-": lambda x: x.__sub__(g), "r*": lambda x: x.__mul__(g)}[sym]
            exp = {"+": w.model | hm, "-": w.model - hm, "*": w.model & hm, "^": w.model ^ hm, "r-": hm - w.model, "r*": hm & w.model}[sym]
            res = sut(fn, h)
            if is_err(res):
                out.fail(("binop-raises", sym, res.kind, res.site), f"{where}: {res!r}")
                return out
            got = [tkey(t) for t in res]
            if len(got) != len(set(got)) or set(got) != exp or len(res) != len(exp):
                out.fail(("binop", sym), f"{where}: got {sorted(got, key=repr)} expected {sorted(exp, key=repr)}")
                return out
            if {tkey(t) for t in h} != hm:
                out.fail(("binop-mutates-operand", sym), where)
                return out
        elif name == "open":
            if w.cfg == "simple":
                continue
            pat = w.t(op[1:4])
            it = sut(lambda: iter(w.obs.triples(pat)))
            if is_err(it):
                out.fail(("open-raises", it.kind, it.site), where)
                return out
            w.iters.append([it, tuple(None if x is None else key(x) for x in pat), set(w.model), True, False])
            continue
        elif name in ("step", "drain"):
            if not w.iters:
                continue
            rec = w.iters[op[1] % len(w.iters)]
            if not rec[3]:
                continue
            n = op[2] if name == "step" else 10 ** 6
            for _ in range(n):
                x = sut(next, rec[0])
                if is_err(x):
                    if isinstance(x.exc, StopIteration):
                        rec[3] = False
                        break
                    out.fail(("iterator-raises", x.kind, x.site), f"{where}: {x!r}")
                    return out
                xk = tkey(x)
                nt |= rec[4]
                if not matches(rec[1], xk):
                    out.fail(("iterator-yields-nonmatching",), f"{where}: pattern {rec[1]} yielded {xk}")
                    return out
                if xk not in rec[2]:
                    out.fail(("iterator-yields-never-present",), f"{where}: yielded {xk}, never in graph since iterator began")
                    return out
            continue
        else:
            continue
        if is_err(r):
            out.fail((name + "-raises", r.kind, r.site), f"{where}: {r!r}")
            return out
        if name in ("add", "addN", "remove", "set") and r is not g:
            out.fail((name, "does-not-return-self"), where)
            return out
        for t in touched:
            nt |= any(x is not None and key(x) in FALSY_KEYS for x in t)
        for rec in w.iters:
            if rec[3]:
                rec[2] |= w.model
                rec[4] = True
        if not observe(w, out, where):
            return out
    out.nontrivial = nt
    out.cls("store:" + w.cfg, *{"op:" + op[0] for op in case["ops"]})
    return out


def strategy(tier):
    big = tier == "thorough"
    si, pi, oi = st.integers(0, 3), st.integers(0, 2), st.integers(0, 4)
    wsi, wpi, woi = st.integers(-1, 3), st.integers(-1, 2), st.integers(-1, 4)
    tri = st.tuples(si, pi, oi).map(list)
    tris = st.lists(tri, max_size=4)
    op = st.one_of(
        st.tuples(st.just("add"), si, pi, oi),
        st.tuples(st.just("add"), si, pi, oi),
        st.tuples(st.just("addN"), st.lists(st.tuples(si, pi, oi, st.integers(0, 2)).map(list), max_size=4)),
        st.tuples(st.just("remove"), wsi, wpi, woi),
        st.tuples(st.just("remove"), si, pi, oi),
        st.tuples(st.just("set"), si, pi, oi),
        st.tuples(st.just("iadd"), tris, st.booleans()),
        st.tuples(st.just("isub"), tris, st.booleans()), st.tuples(st.just("iadd-self")), st.tuples(st.just("isub-self")),
        st.tuples(st.just("binop"), st.sampled_from(["+", "-", "*", "^", "r-", "r*"]), tris),
        st.tuples(st.just("open"), wsi, wpi, woi),
        st.tuples(st.just("step"), st.integers(0, 3), st.integers(1, 3)),
        st.tuples(st.just("drain"), st.integers(0, 3), st.just(0)),
    ).map(list)
    # an iterator is opened on a partly bound pattern, advanced, the graph is changed under it (removals that empty whole index buckets,
    # additions), and the iterator is then run to its end
    pats = st.sampled_from([[0, -1, -1], [1, -1, -1], [0, -1, 0], [-1, 0, -1], [-1, 1, -1], [-1, -1, 0], [-1, -1, 1], [-1, -1, -1], [0, 0, -1], [-1, 0, 0]])
    change = st.one_of(st.tuples(st.just("remove"), wsi, wpi, woi), st.tuples(st.just("remove"), si, pi, oi), st.tuples(st.just("remove"), si, pi, oi),
                       st.tuples(st.just("add"), si, pi, oi)).map(list)
    script = st.tuples(pats, st.integers(1, 2), st.lists(change, min_size=1, max_size=3)).map(
        lambda x: [["open"] + x[0], ["step", -1, x[1]]] + x[2] + [["drain", -1, 0]])
    fill = st.lists(st.tuples(st.just("add"), st.integers(0, 1), pi, st.integers(0, 2)).map(list), min_size=3, max_size=6)
    item = st.one_of(op.map(lambda o: [o]), op.map(lambda o: [o]), op.map(lambda o: [o]), op.map(lambda o: [o]), op.map(lambda o: [o]),
                     st.tuples(fill, script).map(lambda x: x[0] + x[1]), script)
    subj = st.one_of(gt.iris(rich=False), gt.bnodes(), st.sampled_from([["u", ""], ["l", "", None, None], ["l", "0", None, gt.XSD + "integer"]]))
    pred = st.one_of(gt.iris(rich=False), st.just(["u", ""]))
    obj = st.one_of(gt.iris(rich=False), gt.bnodes(), gt.literals())
    return st.fixed_dictionaries({
        "store": st.sampled_from(["memory", "simple", "view"]),
        "S": st.lists(subj, min_size=2, max_size=4, unique_by=lambda j: tuple(map(str, j))),
        "P": st.lists(pred, min_size=2, max_size=3, unique_by=lambda j: tuple(map(str, j))),
        "O": st.tuples(st.lists(obj, min_size=0, max_size=2), st.just([["l", "", None, None], ["l", "0", None, gt.XSD + "integer"], ["l", "false", None, gt.XSD + "boolean"]]))
              .map(lambda p: p[1] + p[0]),
        "ops": sized_lists(item, 1, 60 if big else 30).map(lambda xs: [o for it in xs for o in it][:120 if big else 60]),
    })


SUBCHECKS = [Sub("history", strategy, run, {"quick": 12000, "thorough": 300000})]
