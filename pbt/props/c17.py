"""C17 — Prefix bindings stay a consistent two-way map and compact IRIs expand back.

Generated histories of bind (override/replace flags), qname/compute_qname/curie/n3/expand_curie, reset, serialise (generates
prefixes), parse (binds document prefixes) and binds/qnames through a second Graph view on the same store. After every step:
namespaces() is a bijection that agrees with store.prefix/store.namespace; every compact answer uses a prefix bound now and
expands back to the IRI; all IRIs asked so far are re-asked after every binding change."""
from __future__ import annotations

import re

from hypothesis import strategies as st

from rdflib import Graph, Literal, URIRef
from rdflib.plugins.stores.memory import Memory, SimpleMemory

from pbt.core import K, Out, Sub, is_err, sut
from pbt.gen.util import sized_lists

RULE = ("histories of <=30/60 steps over 8 prefixes (incl. '', generated-looking 'ns1', '_x') and 7 overlapping namespaces (nested, ending in "
        "# / _ or neither), 10 local names (empty, dotted, digit-first, %41), on Memory/SimpleMemory with bind_namespaces none/core/rdflib. "
        "Non-trivial = a qname-family call on an IRI, then a bind touching the prefix or namespace of that answer (or a longer/shorter "
        "matching namespace), then the same call again; distinct by SHA-1 of the case JSON.")
ASSUMPTIONS = ["ValueError/KeyError from the qname family mean 'no compact form' (documented) and are not violations",
               "only documented functional expectations are asserted for bind(): unused prefix+namespace gets listed; replace=True (override "
               "default) makes namespace(prefix)==ns; generate=False adds no binding"]

PFX = ["", "a", "b", "a1", "ns1", "_x", "xml", "default1"]
NS = ["http://x/", "http://x/y/", "http://x/y#", "http://x/y", "urn:a:", "http://x/y/z_", "http://www.w3.org/XML/1998/namespace"]
LOCAL = ["foo", "", "a.b", "1a", "%41", "y", "y/k", "y#k", "z_1", "bar-1"]


def iri(i):
    return URIRef(NS[i[0] % len(NS)] + LOCAL[i[1] % len(LOCAL)])


class World:
    def __init__(self, case):
        store = Memory() if case["store"] == "memory" else SimpleMemory()
        self.g = Graph(store=store, bind_namespaces=case["bn"])
        self.view = None
        self.case = case
        self.asked = []  # iris asked so far (for re-asking)
        self.answers = {}  # iri -> (prefix, ns) used by the last answer

    def nm(self, which=0):
        if which:
            if self.view is None:
                self.view = Graph(store=self.g.store, identifier=self.g.identifier, bind_namespaces="none")
            return self.view.namespace_manager
        return self.g.namespace_manager


def invariants(w, out, where):
    g = w.g
    ns = sut(lambda: list(g.namespaces()))
    if is_err(ns):
        out.fail(("namespaces-raises", ns.kind, ns.site), f"{where}: {ns!r}")
        return False
    ps = [p for p, n in ns]
    nn = [str(n) for p, n in ns]
    if len(ps) != len(set(ps)):
        out.fail(("prefix-listed-twice",), f"{where}: {ns}")
        return False
    if len(nn) != len(set(nn)):
        out.fail(("namespace-listed-twice",), f"{where}: {[(p, str(n)) for p, n in ns]}")
        return False
    st_ = g.store
    for p, n in ns:
        a, b = st_.namespace(p), st_.prefix(n)
        if a is None or str(a) != str(n) or b != p:
            out.fail(("lookup-disagrees-with-namespaces",), f"{where}: ({p!r},{n}) but namespace({p!r})={a} prefix({n})={b!r}")
            return False
    listed = {(p, str(n)) for p, n in ns}
    for p in PFX:
        a = st_.namespace(p)
        if a is not None and (p, str(a)) not in listed:
            out.fail(("namespace()-answer-not-listed",), f"{where}: namespace({p!r})={a} not in {listed}")
            return False
    for n in NS:
        b = st_.prefix(URIRef(n))
        if b is not None and (b, n) not in listed:
            out.fail(("prefix()-answer-not-listed",), f"{where}: prefix({n})={b!r} not in {listed}")
            return False
    return True


def check_answer(w, out, where, u, which=0):
    """asks the whole qname family about IRI u and checks each answer expands back through currently bound prefixes"""
    nm = w.nm(which)
    store = w.g.store
    tag = "view" if which else "own"
    r = sut(nm.compute_qname, u, False)
    if is_err(r):
        if not isinstance(r.exc, (ValueError, KeyError)):
            out.fail(("compute_qname-raises", r.kind, r.site), f"{where}: {u} {r!r}")
            return False
    else:
        p, n, name = r
        if str(n) + name != str(u):
            out.fail(("compute_qname-does-not-expand-back", tag), f"{where}: {u} -> {r}")
            return False
        a = store.namespace(p)
        if a is None or str(a) != str(n):
            out.fail(("compute_qname-prefix-not-bound-now", tag), f"{where}: {u} -> {r}, but namespace({p!r})={a}")
            return False
        w.answers[str(u)] = (p, str(n))
        q = sut(nm.qname, u)
        if is_err(q) or q != (name if p == "" else f"{p}:{name}"):
            out.fail(("qname-disagrees-with-compute_qname", tag), f"{where}: {u}: qname={q!r} compute_qname={r}")
            return False
        c = sut(nm.curie, u, False)
        if is_err(c):
            out.fail(("curie-raises", c.kind, c.site), f"{where}: {u} {c!r}")
            return False
        e = sut(nm.expand_curie, c)
        if is_err(e) or str(e) != str(u):
            out.fail(("curie-does-not-expand-back", tag), f"{where}: {u}: curie={c!r} expands to {e!r}")
            return False
    # n3 with namespace manager: either <iri> or pfx:local that expands back
    t = sut(u.n3, nm)
    if is_err(t):
        if not isinstance(t.exc, (ValueError, KeyError)):
            out.fail(("n3-raises", t.kind, t.site), f"{where}: {u} {t!r}")
            return False
    elif not t.startswith("<"):
        e = sut(nm.expand_curie, t)
        if is_err(e) or str(e) != str(u):
            out.fail(("n3-does-not-expand-back", tag), f"{where}: {u}: n3={t!r} expands to {e!r}")
            return False
    else:
        if t != f"<{u}>":
            out.fail(("n3-wrong-iri", tag), f"{where}: {u}: {t!r}")
            return False
    out.sub_evals += 1
    return True


def run(case):
    out = Out()
    w = World(case)
    g = w.g
    if not invariants(w, out, "initial"):
        return out
    for step, op in enumerate(case["ops"]):
        name = op[0]
        where = f"step {step} {op}"
        if name in ("bind", "view_bind"):
            p, n = PFX[op[1] % len(PFX)], URIRef(NS[op[2] % len(NS)])
            override, replace = bool(op[3]), bool(op[4])
            store = g.store
            unused = store.namespace(p) is None and store.prefix(n) is None
            # did this bind touch something an earlier answer relied on?
            for u, (ap, an) in w.answers.items():
                if ap == p or an == str(n) or str(n).startswith(an) or an.startswith(str(n)):
                    out.nontrivial = True
            r = sut(w.nm(1 if name == "view_bind" else 0).bind, p, n, override, replace)
            if is_err(r):
                if isinstance(r.exc, KeyError) and " " in p:
                    continue
                out.fail(("bind-raises", r.kind, r.site), f"{where}: {r!r}")
                return out
            if override and not replace and unused:
                if (p, str(n)) not in {(a, str(b)) for a, b in g.namespaces()}:
                    out.fail(("bind-unused-not-listed",), f"{where}: {list(g.namespaces())}")
                    return out
            if replace and override:
                a = store.namespace(p)
                if a is None or str(a) != str(n):
                    out.fail(("bind-replace-not-effective",), f"{where}: namespace({p!r})={a}")
                    return out
        elif name in ("ask", "view_ask"):
            u = iri(op[1:3])
            if u not in w.asked:
                w.asked.append(u)
            if not check_answer(w, out, where, u, 1 if name == "view_ask" else 0):
                return out
        elif name == "gen":
            # compute_qname with generate=True may bind a fresh prefix; generate=False must not
            u = iri(op[1:3])
            before = set((p, str(n)) for p, n in g.namespaces())
            r = sut(g.namespace_manager.compute_qname, u, False)
            if set((p, str(n)) for p, n in g.namespaces()) != before:
                out.fail(("generate-false-binds",), where)
                return out
            # "no known prefix" is only true when no bound namespace leaves a plain local name of the IRI (namespaces that had a prefix
            # earlier in the history must not get in the way)
            fits = [(p, n) for p, n in before if str(u).startswith(n) and re.fullmatch(r"[A-Za-z_][A-Za-z0-9_]*", str(u)[len(n):])]
            if is_err(r) and isinstance(r.exc, KeyError) and fits:
                out.fail(("generate-false-raises-though-a-prefix-fits",), f"{where}: {r!r}; bound {sorted(fits)}")
                return out
            r = sut(g.compute_qname, u)
            if is_err(r) and not isinstance(r.exc, (ValueError, KeyError)):
                out.fail(("compute_qname-raises", r.kind, r.site), f"{where}: {r!r}")
                return out
            if u not in w.asked:
                w.asked.append(u)
        elif name == "strict":
            u = iri(op[1:3])
            r = sut(g.namespace_manager.compute_qname_strict, u)
            if is_err(r):
                if not isinstance(r.exc, (ValueError, KeyError)):
                    out.fail(("compute_qname_strict-raises", r.kind, r.site), f"{where}: {r!r}")
                    return out
            else:
                p, n, nm_ = r
                a = g.store.namespace(p)
                if str(n) + nm_ != str(u) or a is None or str(a) != str(n):
                    out.fail(("compute_qname_strict-inconsistent",), f"{where}: {u} -> {r}; namespace({p!r})={a}")
                    return out
        elif name == "litn3":
            u = iri(op[1:3])
            lit = Literal("v", datatype=u)
            t = sut(lit.n3, g.namespace_manager)
            if is_err(t):
                if not isinstance(t.exc, (ValueError, KeyError)):
                    out.fail(("literal-n3-raises", t.kind, t.site), f"{where}: {t!r}")
                    return out
            else:
                dt = t.split("^^", 1)[1]
                if not dt.startswith("<"):
                    e = sut(g.namespace_manager.expand_curie, dt)
                    if is_err(e) or str(e) != str(u):
                        out.fail(("literal-n3-datatype-does-not-expand-back",), f"{where}: {t!r} -> {e!r}")
                        return out
        elif name == "reset":
            sut(g.namespace_manager.reset)
        elif name == "ser":
            h = Graph(store=g.store, identifier=g.identifier, bind_namespaces="none") if op[3] else g
            tmp = []
            for j in op[2]:
                t = (iri(j), iri([j[0] + 1, j[1] + 1]), iri([j[0] + 2, j[1]]))
                g.add(t); tmp.append(t)
            r = sut(h.serialize, format=op[1])
            for t in tmp:
                g.remove(t)
            if is_err(r) and not isinstance(r.exc, ValueError):
                out.fail(("serialize-raises", op[1], r.kind, r.site), f"{where}: {r!r}")
                return out
        elif name == "parse":
            doc = "".join(f"@prefix {PFX[p % len(PFX)]}: <{NS[n % len(NS)]}> .\n" for p, n in op[1] if PFX[p % len(PFX)] != "xml" or True)
            doc += "<urn:s> <urn:p> <urn:o> .\n"
            r = sut(g.parse, data=doc, format="turtle")
            if is_err(r):
                out.fail(("parse-raises", r.kind, r.site), f"{where}: {r!r}")
                return out
            g.remove((None, None, None))
        else:
            continue
        if not invariants(w, out, where):
            return out
        if name in ("bind", "view_bind", "gen", "ser", "parse", "reset"):
            for u in w.asked:
                if not check_answer(w, out, where + " re-ask", u, 0):
                    return out
                if w.view is not None and not check_answer(w, out, where + " re-ask(view)", u, 1):
                    return out
    out.cls("store:" + case["store"], "bn:" + case["bn"], *{"op:" + op[0] for op in case["ops"]})
    return out


def strategy(tier):
    big = tier == "thorough"
    pi, ni, li, fl = st.integers(0, len(PFX) - 1), st.integers(0, len(NS) - 1), st.integers(0, len(LOCAL) - 1), st.integers(0, 1)
    op = st.one_of(
        st.tuples(st.just("bind"), pi, ni, st.just(1), st.just(0)),
        st.tuples(st.just("bind"), pi, ni, fl, fl),
        st.tuples(st.just("view_bind"), pi, ni, fl, fl),
        st.tuples(st.just("ask"), ni, li), st.tuples(st.just("ask"), ni, li), st.tuples(st.just("view_ask"), ni, li),
        st.tuples(st.just("gen"), ni, li), st.tuples(st.just("strict"), ni, li), st.tuples(st.just("litn3"), ni, li),
        st.tuples(st.just("reset")),
        st.tuples(st.just("ser"), st.sampled_from(["turtle", "xml", "n3", "trig", "pretty-xml", "longturtle"]),
                  st.lists(st.tuples(ni, li).map(list), min_size=1, max_size=3), fl),
        st.tuples(st.just("parse"), st.lists(st.tuples(pi, ni).map(list), min_size=1, max_size=3)),
    ).map(list)
    return st.fixed_dictionaries({
        "store": st.sampled_from(["memory", "simple"]),
        "bn": st.sampled_from(["none", "none", "core", "rdflib"]),
        "ops": sized_lists(op, 2, 60 if big else 30),
    })


SUBCHECKS = [Sub("history", strategy, run, {"quick": 40000, "thorough": 800000})]
