"""C20 — a graph backed by a SPARQL endpoint mirrors and updates the endpoint faithfully.

Histories of writes and reads through Graph(SPARQLUpdateStore(...)) objects (default graph and two named graphs) against a loopback
endpoint (pbt/endpoint.py: http.server on 127.0.0.1 answering with RDFLib's own engine over a Dataset), in every combination of
method GET/POST/POST_FORM, result format XML/JSON, autocommit on/off, dirty_reads on/off, context_aware on/off.
Oracle: a model {graph name -> set of triples} of what a local graph would hold, plus the queue of uncommitted writes. After every step the
endpoint's dataset must equal the committed model; every read through the store must equal the model state that read is entitled to see."""
from __future__ import annotations

import re

import warnings

from hypothesis import strategies as st

from rdflib import BNode, Graph, URIRef
from rdflib.graph import DATASET_DEFAULT_GRAPH_ID
from rdflib.plugins.stores.sparqlstore import SPARQLUpdateStore

from pbt import endpoint
from pbt.codec import T, key
from pbt.core import Out, Sub, is_err, sut
from pbt.gen import terms as gt

RULE = ("histories of 1-12 steps (add, addN over several graphs, remove with all 8 wildcard shapes, remove_graph, update() with INSERT DATA / DELETE DATA / "
        "DELETE WHERE / DELETE-INSERT-WHERE text, reads: triples (8 shapes), len, membership, contexts, contexts(pattern), query; commit, rollback) over a default graph and "
        "two named graphs; terms drawn per case from IRIs (RFC 3987 shaped) and all literal families incl. quotes, backslashes, newlines, CR, TAB, "
        "non-BMP, language tags, falsy values; 3 x 2 x 2 x 2 x 2 store configurations. Non-trivial = a write queued with autocommit off is followed by a "
        "read or commit, or a literal needs escaping in SPARQL text, or a named graph is involved; distinct by SHA-1 of the case JSON.")
ASSUMPTIONS = ["the endpoint answers with RDFLib's own engine (as the property's observation point prescribes); engine faults are C04/C10's subject and were "
               "repaired or excluded there first",
               "blank nodes are documented as unsupported by the store: the check only asserts that writing one raises and changes nothing",
               "with returnFormat='xml' strings are restricted to XML 1.0 Char (the result format cannot state others)",
               "CREATE GRAPH (sent by add_graph) is accepted by the endpoint as a no-op (a store that does not record empty graphs)"]

GRAPHS = [None, "urn:g1", "urn:g2"]


def graph_for(store, gi):
    ident = DATASET_DEFAULT_GRAPH_ID if GRAPHS[gi] is None else URIRef(GRAPHS[gi])
    return Graph(store, identifier=ident)


def endpoint_quads():
    ds = endpoint.dataset()
    default_id = ds.default_context.identifier
    out = set()
    for (s, p, o), ctxs in ds.store.triples((None, None, None), None):
        for c in ctxs:
            ident = getattr(c, "identifier", c)
            out.add((key(s), key(p), key(o), None if ident == default_id else str(ident)))
    return out


def tk(t):
    return tuple(key(T(x)) for x in t)


def match(pattern, triple):
    return all(p is None or key(T(p)) == x for p, x in zip(pattern, triple))


class Model:
    def __init__(self, init, context_aware):
        self.ca = context_aware
        self.committed = {None: set(), "urn:g1": set(), "urn:g2": set()}
        for gname, triples in init.items():
            self.committed[None if gname == "default" else gname] |= {tk(t) for t in triples}
        self.pending = []

    def eff(self, gi):
        return GRAPHS[gi] if self.ca else None

    def write(self, fn, autocommit):
        if autocommit:
            fn(self.committed)
        else:
            self.pending.append(fn)

    def commit(self):
        for fn in self.pending:
            fn(self.committed)
        self.pending = []

    def rollback(self):
        self.pending = []

    def quads(self):
        return {(s, p, o, g) for g, ts in self.committed.items() for s, p, o in ts}


def run(case):
    out = Out()
    cfg = case["config"]
    ops = case["ops"]
    if not ops:
        return out
    base = endpoint.ensure_server()
    ds = endpoint.reset()
    for gname, triples in case["init"].items():
        g = ds.default_context if gname == "default" else ds.get_context(URIRef(gname))
        for t in triples:
            g.add(tuple(T(x) for x in t))
    model = Model(case["init"], cfg["context_aware"])
    store = SPARQLUpdateStore(base + "/sparql", base + "/update", context_aware=cfg["context_aware"], returnFormat=cfg["format"], method=cfg["method"],
                              autocommit=cfg["autocommit"], dirty_reads=cfg["dirty_reads"])
    auto, dirty = cfg["autocommit"], cfg["dirty_reads"]
    tag = f"{cfg['method']}/{cfg['format']}/{'auto' if auto else 'manual'}{'/dirty' if dirty else ''}{'' if cfg['context_aware'] else '/no-ctx'}"
    queued_then_seen = False
    named = False

    def before_read():
        nonlocal queued_then_seen
        if not auto and not dirty:
            if model.pending:
                queued_then_seen = True
            model.commit()

    def ctx(i):
        return f"config={tag}\n init={case['init']}\n step {i}: {ops[i]}\n history={ops[:i]}"

    with warnings.catch_warnings():
        warnings.simplefilter("ignore")
        for i, op in enumerate(ops):
            k = op[0]
            res = None
            expect = None
            if k == "add":
                g, t = graph_for(store, op[1]), tuple(T(x) for x in op[2])
                name = model.eff(op[1])
                named |= name is not None
                res = sut(g.add, t)
                model.write(lambda st_, name=name, t=tk(op[2]): st_[name].add(t), auto)
            elif k == "add-bnode":
                g = graph_for(store, op[1])
                t = (BNode("x"), URIRef("urn:p"), URIRef("urn:o"))
                res = sut(g.add, t)
                if not is_err(res):
                    out.fail(("bnode-accepted-silently",), ctx(i))
                    return out
                res = None
            elif k == "addN":
                quads = [(tuple(T(x) for x in t) + (graph_for(store, gi),)) for gi, t in op[1]]
                res = sut(store.addN, quads)  # (Graph.addN keeps only the quads of that very graph; Dataset.addN passes them all on like this)
                for gi, t in op[1]:
                    name = model.eff(gi)
                    named |= name is not None
                    model.write(lambda st_, name=name, t=tk(t): st_[name].add(t), auto)
            elif k == "remove":
                g = graph_for(store, op[1])
                pat = tuple(None if x is None else T(x) for x in op[2])
                name = model.eff(op[1])
                named |= name is not None
                res = sut(g.remove, pat)
                model.write(lambda st_, name=name, pat=op[2]: st_.__setitem__(name, {t for t in st_[name] if not match(pat, t)}), auto)
            elif k == "remove_graph":
                if not cfg["context_aware"]:
                    continue
                g = graph_for(store, op[1])
                name = model.eff(op[1])
                named |= name is not None
                res = sut(store.remove_graph, g)
                model.write(lambda st_, name=name: st_[name].clear(), auto)
            elif k == "update":
                g = graph_for(store, op[1])
                name = model.eff(op[1])
                named |= name is not None
                text, fn = update_text(op[2])
                if op[2][0] in ("move-bound", "move-bound-2ops"):
                    # the object is handed over as initBindings (the store writes it into the text as VALUES)
                    bound = {"o": T(op[2][3])}
                    res = sut(lambda: g.update(text, initBindings=bound))
                else:
                    res = sut(g.update, text)
                model.write(lambda st_, name=name, fn=fn: fn(st_, name), auto)
            elif k == "commit":
                if model.pending:
                    queued_then_seen = True
                res = sut(store.commit)
                model.commit()
            elif k == "rollback":
                res = sut(store.rollback)
                model.rollback()
            elif k in ("triples", "len", "contains", "query", "contexts", "contexts-of"):
                if k == "contexts-of" and not cfg["context_aware"]:
                    continue
                before_read()
                if k == "contexts-of":
                    # the named graphs that hold a match of the pattern, each once
                    pat = tuple(None if x is None else T(x) for x in op[1])
                    res = sut(lambda: sorted(str(c.identifier) if hasattr(c, "identifier") else str(c) for c in store.contexts(pat)))
                    expect = sorted(n for n, ts in model.committed.items() if n is not None and any(match(op[1], t) for t in ts))
                elif k == "contexts":
                    res = sut(lambda: {str(c.identifier) if hasattr(c, "identifier") else str(c) for c in store.contexts()})
                    # graphs that hold triples must be listed; whether an emptied graph still is depends on the endpoint (documented)
                    if not is_err(res):
                        must = {n for n, ts in model.committed.items() if n is not None and ts}
                        if not (must <= res <= {"urn:g1", "urn:g2"}):
                            out.fail(("read-differs", "contexts", cfg["format"]), f"{ctx(i)}\n got {res}, graphs with triples {must}")
                            return out
                else:
                    g = graph_for(store, op[1])
                    name = model.eff(op[1])
                    named |= name is not None
                    visible = model.committed[name]
                    if k == "triples":
                        pat = tuple(None if x is None else T(x) for x in op[2])
                        res = sut(lambda: sorted((tuple(key(x) for x in t) for t in g.triples(pat)), key=repr))
                        expect = sorted((t for t in visible if match(op[2], t)), key=repr)
                    elif k == "len":
                        res = sut(len, g)
                        expect = len(visible)
                    elif k == "contains":
                        t = tuple(T(x) for x in op[2])
                        res = sut(lambda: t in g)
                        expect = tk(op[2]) in visible
                    else:
                        res = sut(lambda: sorted((tuple(key(x) for x in row) for row in g.query("SELECT ?s ?p ?o WHERE { ?s ?p ?o }")), key=repr))
                        expect = sorted(visible, key=repr)
            else:
                raise ValueError(op)
            if is_err(res):
                out.fail(("raises", k, res.kind, cfg["format"], res.site), f"{ctx(i)}: {res!r}\n endpoint errors: {endpoint.errors()[-2:]}")
                return out
            if expect is not None and res != expect:
                out.fail(("read-differs", k, cfg["format"], "manual" if not auto else "auto", "dirty" if dirty else "clean"),
                         f"{ctx(i)}\n got      {res}\n expected {expect}")
                return out
            leaks = [e for e in endpoint.errors() if e[0] == "private-default-graph-name-sent"]
            if leaks:
                out.fail(("private-default-graph-name-sent", k), f"{ctx(i)}\n request: {leaks[0][1][-300:]} {leaks[0][2]}")
                return out
            got, want = endpoint_quads(), model.quads()
            if got != want:
                out.fail(("endpoint-differs", k, "manual" if not auto else "auto", "pending" if model.pending else "no-pending"),
                         f"{ctx(i)}\n endpoint-only={sorted(got - want, key=repr)[:4]}\n model-only={sorted(want - got, key=repr)[:4]}\n"
                         f" last requests={[(a, b[:300]) for a, b, _ in endpoint.log()[-3:]]}\n endpoint errors: {endpoint.errors()[-2:]}")
                return out
    esc = any(isinstance(x, list) and x and x[0] == "l" and any(ch in x[1] for ch in "\"'\\\n\r\t") for x in _terms(case))
    out.nontrivial = queued_then_seen or esc or named
    kinds = sorted({op[0] for op in ops})
    out.cls("cfg:" + tag, *["op:" + k for k in kinds], *(["queued-then-seen"] if queued_then_seen else []), *(["escaping"] if esc else []),
            *(["named-graph"] if named else []), "steps:%d" % min(len(ops), 12))
    return out


def _terms(case):
    def walk(x):
        if isinstance(x, list):
            if x and isinstance(x[0], str) and x[0] in ("l", "u", "b") and len(x) >= 2 and isinstance(x[1], str):
                yield x
            else:
                for y in x:
                    yield from walk(y)
        elif isinstance(x, dict):
            for y in x.values():
                yield from walk(y)
    yield from walk(case["init"])
    yield from walk(case["ops"])


# ---------------------------------------------------------------- update() texts (the "local" single-graph subset the store documents)
_BS_BEFORE_UCHAR = re.compile(r"(?P<bs>\\\\(?=u[0-9A-Fa-f]{4}|U[0-9A-Fa-f]{8}))|\\.", re.S)


def n3(t):
    """the term as SPARQL text. A backslash of the text that is followed by uXXXX is written as codepoint escapes: SPARQL (19.2) replaces
    \\uXXXX in the whole request before parsing, also after the doubled backslash of the n3() form"""
    return _BS_BEFORE_UCHAR.sub(lambda m: "\\u005C\\u005C" if m.group("bs") else m.group(0), T(t).n3())


def update_text(u):
    """-> (text, fn(state, graph name))"""
    k = u[0]
    if k == "insertdata":
        trs = [tk(t) for t in u[1]]
        return "INSERT DATA { " + " ".join(f"{n3(s)} {n3(p)} {n3(o)} ." for s, p, o in u[1]) + " }", lambda st_, name: st_[name].update(trs)
    if k == "deletedata":
        trs = [tk(t) for t in u[1]]
        return "DELETE DATA { " + " ".join(f"{n3(s)} {n3(p)} {n3(o)} ." for s, p, o in u[1]) + " }", lambda st_, name: st_[name].difference_update(trs)
    if k == "deletewhere":
        pat = u[1]

        def fn(st_, name):
            st_[name] = {t for t in st_[name] if not match(pat, t)}
        vs = ["?s", "?p", "?o"]
        return "DELETE WHERE { " + " ".join(vs[i] if x is None else n3(x) for i, x in enumerate(pat)) + " }", fn
    if k == "move":
        # DELETE { ?s P ?o } INSERT { ?s Q ?o } WHERE { ?s P ?o }
        P, Q = u[1], u[2]

        def fn(st_, name):
            hit = {t for t in st_[name] if t[1] == key(T(P))}
            st_[name] = (st_[name] - hit) | {(s, key(T(Q)), o) for s, _, o in hit}
        return f"DELETE {{ ?s {n3(P)} ?o }} INSERT {{ ?s {n3(Q)} ?o }} WHERE {{ ?s {n3(P)} ?o }}", fn
    if k == "move-bound":
        # the same with ?o given by initBindings: only the triples with that object move
        P, Q, O = u[1], u[2], u[3]

        def fn(st_, name):
            hit = {t for t in st_[name] if t[1] == key(T(P)) and t[2] == key(T(O))}
            st_[name] = (st_[name] - hit) | {(s, key(T(Q)), o) for s, _, o in hit}
        return f"DELETE {{ ?s {n3(P)} ?o }} INSERT {{ ?s {n3(Q)} ?o }} WHERE {{ ?s {n3(P)} ?o }}", fn
    if k == "move-bound-2ops":
        # the same move as a request of two operations; the initBindings restrict the WHERE of every operation of the request
        P, Q, O = u[1], u[2], u[3]

        def fn(st_, name):
            hit = {t for t in st_[name] if t[1] == key(T(P)) and t[2] == key(T(O))}
            st_[name] = (st_[name] | {(s, key(T(Q)), o) for s, _, o in hit}) - hit
        return f"INSERT {{ ?s {n3(Q)} ?o }} WHERE {{ ?s {n3(P)} ?o }} ; DELETE {{ ?s {n3(P)} ?o }} WHERE {{ ?s {n3(P)} ?o }}", fn
    raise ValueError(u)


# ---------------------------------------------------------------- generator
@st.composite
def cases(draw, tier):
    cfg = {"method": draw(st.sampled_from(["GET", "POST", "POST_FORM"])), "format": draw(st.sampled_from(["xml", "json"])),
           "autocommit": draw(st.booleans()), "dirty_reads": draw(st.booleans()), "context_aware": draw(st.sampled_from([True, True, True, False]))}
    xml = cfg["format"] == "xml"
    subj = draw(st.lists(gt.iris(), min_size=2, max_size=3, unique_by=repr))
    pred = draw(st.lists(gt.iris(rich=False), min_size=1, max_size=2, unique_by=repr))
    # strings that look like SPARQL structure (the store re-writes update texts with a block finder)
    tricky = st.lists(st.sampled_from(['"', "\\", "}", "{", "\n", "'", "#", "a", " ", "WHERE {", '"""', "<", ">"]), min_size=1, max_size=6).map(
        lambda xs: ["l", "".join(xs), None, None])
    lit = st.one_of(gt.literals(xml_safe=xml, unknown=True), gt.falsy_literals(), gt.plain_literals(xml_safe=xml), tricky)
    obj = draw(st.lists(st.one_of(lit, lit, gt.iris()), min_size=2, max_size=5, unique_by=repr))
    if draw(st.booleans()):
        # a plain literal that says the IRI of a subject which is itself used as an object: two terms with one text in an answer
        obj.append(["l", subj[0][1], None, None])
    triple = st.tuples(st.sampled_from(subj), st.sampled_from(pred), st.sampled_from(obj + subj[:1])).map(list)

    def pattern():
        return st.tuples(st.one_of(st.none(), st.sampled_from(subj)), st.one_of(st.none(), st.sampled_from(pred)),
                         st.one_of(st.none(), st.sampled_from(obj))).map(list)
    gi = st.integers(0, 2)
    init = {"default": draw(st.lists(triple, max_size=4, unique_by=repr)), "urn:g1": draw(st.lists(triple, max_size=3, unique_by=repr))}
    upd = st.one_of(st.tuples(st.just("insertdata"), st.lists(triple, min_size=1, max_size=3)).map(list),
                    st.tuples(st.just("deletedata"), st.lists(triple, min_size=1, max_size=2)).map(list),
                    st.tuples(st.just("deletewhere"), pattern()).map(list),
                    st.tuples(st.just("move"), st.sampled_from(pred), st.sampled_from(pred)).map(list),
                    st.tuples(st.sampled_from(["move-bound", "move-bound-2ops"]), st.sampled_from(pred), st.sampled_from(pred), st.sampled_from(obj)).map(list))
    op = st.one_of(
        st.tuples(st.just("add"), gi, triple).map(list), st.tuples(st.just("add"), gi, triple).map(list),
        st.tuples(st.just("addN"), st.lists(st.tuples(gi, triple).map(list), min_size=1, max_size=4)).map(list),
        st.tuples(st.just("remove"), gi, pattern()).map(list), st.tuples(st.just("remove"), gi, triple).map(list),
        st.tuples(st.just("remove_graph"), gi).map(list),
        st.tuples(st.just("update"), gi, upd).map(list),
        st.tuples(st.just("triples"), gi, pattern()).map(list), st.tuples(st.just("triples"), gi, triple).map(list),
        st.tuples(st.just("len"), gi).map(list), st.tuples(st.just("contains"), gi, triple).map(list),
        st.tuples(st.just("query"), gi).map(list), st.just(["contexts"]), st.just(["commit"]), st.just(["rollback"]),
        st.tuples(st.just("add-bnode"), gi).map(list), st.tuples(st.just("contexts-of"), st.one_of(pattern(), triple)).map(list))
    # the same edit queued twice with its inverse in between (order of queued edits matters exactly then)
    def toggle(args):
        g_, t_, start = args
        a, r = ["add", g_, t_], ["remove", g_, t_]
        return [a, r, a] if start else [r, a, r]
    item = st.one_of(op.map(lambda o: [o]), op.map(lambda o: [o]), op.map(lambda o: [o]), op.map(lambda o: [o]),
                     st.tuples(gi, triple, st.booleans()).map(toggle))
    items = draw(st.lists(item, min_size=3, max_size=10 if tier == "quick" else 20))
    return {"config": cfg, "init": init, "ops": [o for it in items for o in it][:14 if tier == "quick" else 30]}


SUBCHECKS = [Sub("histories", lambda tier: cases(tier), run, {"quick": 8000, "thorough": 200000})]
