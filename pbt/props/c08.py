"""C08 — Solution modifiers and aggregates follow SPARQL (DISTINCT, ORDER, slice, GROUP).

A C04 pattern wrapped with projection / DISTINCT / REDUCED / ORDER BY (1-3 keys, ASC/DESC, expressions, unbound keys, mixed kinds) /
LIMIT / OFFSET, or with GROUP BY + aggregates (COUNT(*), COUNT, COUNT DISTINCT, SUM, AVG, MIN, MAX, SAMPLE, GROUP_CONCAT) + HAVING.
Oracle: the reference evaluator (multisets; SAMPLE = member of the group; GROUP_CONCAT = multiset of pieces), validity predicates for
ORDER BY (no adjacent pair strictly out of order where SPARQL 15.1 defines the order), DISTINCT (no duplicates), and a metamorphic slice
check: Q LIMIT l OFFSET o must be rows(Q)[o:o+l] when Q is ordered."""
from __future__ import annotations

import warnings
from collections import Counter
from decimal import Decimal

from hypothesis import strategies as st

from rdflib import Graph

from pbt.codec import T, key
from pbt.core import K, Out, Sub, is_err, sut
from pbt.gen import sparql as gs
from pbt.oracle import sparqlref as ref
from pbt.props import c04

RULE = ("pattern of depth <=2 over data derived BGPs, wrapped with projection, DISTINCT/REDUCED, ORDER BY (1-3 keys ASC/DESC over variables and "
        "?v+1 expressions, keys unbound in some rows, keys of mixed kinds), LIMIT/OFFSET (0, inside, beyond the end), or GROUP BY 0-2 keys with "
        "1-3 aggregates (9 kinds, DISTINCT, SEPARATOR), HAVING on an aggregate, the implicit single group and the empty group. Non-trivial = "
        ">=2 modifiers, or an aggregate over a group of size >=2, or an empty group; distinct by SHA-1 of the case JSON.")
ASSUMPTIONS = ["numeric aggregate results are compared by datatype and value (not lexical form)",
               "where SPARQL 15.1 leaves the relative order of two keys open the ORDER BY predicate abstains for that pair",
               "patterns in the classes of C04's recorded findings are not used as operands (they are C04's subject)"]

AGGS = ["count*", "count", "sum", "avg", "min", "max", "sample", "group_concat"]


def norm(t):
    """numeric literals by (datatype, value); everything else as is"""
    if isinstance(t, tuple) and t and t[0] == "l" and t[2] in ref.NUMERIC:
        try:
            return ("num", t[2], Decimal(t[1]) if t[2] != ref.DBL else Decimal(repr(float(t[1]))))
        except Exception:  # noqa: BLE001
            return t
    return t


def row_key(m, vars_):
    return tuple(norm(m.get(v)) for v in vars_)


def build_graph(data):
    g = Graph()
    for t in data["default"]:
        g.add(tuple(T(x) for x in t))
    return g


def refds(data):
    return {"default": {tuple(ref.jterm(x) for x in t) for t in data["default"]}, "named": {}}


def run(case):
    out = Out()
    pat = case["pattern"]
    if not c04.valid(pat):
        return out
    if (c04.contains(pat, "values") and (c04.contains(pat, "opt") or c04.contains(pat, "bind"))) or c04.filter_out_of_scope(pat) or \
            c04.pushes_into_scoped_operator(pat) or c04.subselect_hides_shared_var(pat):
        out.cls("c04-finding-class-skipped")
        return out
    env = ref.Env(refds(case["data"]), False)
    g = build_graph(case["data"])
    try:
        if case["mode"] == "group":
            return run_group(case, out, g, env)
        return run_plain(case, out, g, env)
    except ref.Grey as e:
        out.cls("grey:" + str(e)[:30])
        return out


def query(g, q):
    with warnings.catch_warnings():
        warnings.simplefilter("ignore")
        r = g.query(q)
        return [str(v) for v in (r.vars or [])], [{str(k): key(v) for k, v in b.items() if v is not None} for b in r.bindings]


def run_plain(case, out, g, env):
    pat, vars_, distinct, order, limit, offset = case["pattern"], case["vars"], case["distinct"], case["order"], case["limit"], case["offset"]
    scope = sorted(ref.in_scope(pat))
    proj = vars_ if vars_ is not None else scope
    node = ["sub", vars_, distinct == "distinct", pat, order, limit, offset]
    want = ref.eval_select(node, env)
    q = gs.select_text(node)
    if distinct == "reduced":
        q = q.replace("SELECT ", "SELECT REDUCED ", 1)
    res = sut(query, g, q)
    mods = sum(1 for x in (vars_ is not None, distinct != "none", bool(order), limit is not None, bool(offset)) if x)
    if is_err(res):
        out.fail(("query-raises", res.kind, res.site), f"{q}\n data={case['data']['default']}: {res!r}")
        return out
    rvars, rows = res
    if vars_ is not None and rvars != list(vars_):
        out.fail(("projection-vars",), f"{q}: vars {rvars}")
        return out
    if any(set(r) - set(proj) for r in rows) and vars_ is not None:
        out.fail(("projection-keeps-other-variables",), f"{q}: {rows[:3]}")
        return out
    got_c = Counter(row_key(r, proj) for r in rows)
    want_c = Counter(row_key(m, proj) for m in want)
    sliced = limit is not None or bool(offset)
    if not sliced:
        if distinct == "reduced":
            plain = Counter(row_key(m, proj) for m in ref.eval_select(["sub", vars_, False, pat, None, None, None], env))
            if not (set(got_c) == set(plain) and all(1 <= got_c[k] <= plain[k] for k in got_c)):
                out.fail(("reduced-outside-bounds",), f"{q}: {dict(got_c)} vs plain {dict(plain)}")
                return out
        elif got_c != want_c:
            kind = "multiplicity" if set(got_c) == set(want_c) else ("missing" if want_c - got_c and not got_c - want_c else "extra/other")
            out.fail(("rows-differ", kind, "distinct" if distinct == "distinct" else "plain"), f"{q}\n data={case['data']['default']}\n missing={list((want_c - got_c).items())[:3]} extra={list((got_c - want_c).items())[:3]}")
            return out
    if distinct == "distinct" and any(c > 1 for c in got_c.values()):
        out.fail(("distinct-has-duplicates",), f"{q}: {[k for k, c in got_c.items() if c > 1][:3]}")
        return out
    if order and not sliced:
        # adjacent pairs must not be strictly out of order (reference comparator abstains where SPARQL does not define the order)
        full = ref.eval_select(["sub", None, False, pat, None, None, None], env)
        if vars_ is None and distinct == "none":
            def keyvals(m):
                vals = []
                for e, desc in order:
                    try:
                        vals.append(ref.eval_expr(e, m, env))
                    except ref.ExprError:
                        vals.append(None)
                return vals
            seq = [{k: v for k, v in r.items()} for r in rows]
            for a, b in zip(seq, seq[1:]):
                ka, kb = keyvals(a), keyvals(b)
                for (e, desc), x, y in zip(order, ka, kb):
                    try:
                        c = ref.order_key_cmp(x, y)
                    except ref.Grey:
                        break
                    if desc:
                        c = -c
                    if c < 0:
                        break
                    if c > 0:
                        out.fail(("order-by-violated", "desc" if desc else "asc", "multi-key" if len(order) > 1 else "single-key"),
                                 f"{q}\n data={case['data']['default']}\n row {a} is before {b}")
                        return out
    if sliced:
        # metamorphic: the slice of the unsliced query as RDFLib itself orders it
        node_full = ["sub", vars_, distinct == "distinct", pat, order, None, None]
        qf = gs.select_text(node_full)
        if distinct == "reduced":
            qf = qf.replace("SELECT ", "SELECT REDUCED ", 1)
        resf = sut(query, g, qf)
        if is_err(resf):
            return out
        full_rows = resf[1]
        o = offset or 0
        exp_n = max(0, min(len(full_rows) - o, limit if limit is not None else len(full_rows)))
        if distinct != "reduced" and len(rows) != exp_n:
            out.fail(("slice-wrong-length",), f"{q}: {len(rows)} rows, expected {exp_n} of {len(full_rows)}")
            return out
        if order and distinct != "reduced":
            expect = full_rows[o:o + limit] if limit is not None else full_rows[o:]
            if [row_key(r, proj) for r in rows] != [row_key(r, proj) for r in expect]:
                out.fail(("slice-not-the-slice-of-ordered-sequence",), f"{q}\n got {rows}\n full {full_rows}")
                return out
        elif distinct != "reduced":
            if got_c - Counter(row_key(r, proj) for r in full_rows):
                out.fail(("slice-not-a-sub-multiset",), f"{q}")
                return out
    out.nontrivial = mods >= 2 and bool(want)
    out.cls("mode:plain", "mods:%d" % mods, *(["order"] if order else []), *(["slice"] if sliced else []), "distinct:" + distinct)
    return out


def run_group(case, out, g, env):
    pat, keys, aggs, having = case["pattern"], case["keys"], case["aggs"], case["having"]
    gkeys = [["v", k] for k in keys]
    having_expr = None
    if having is not None:
        having_expr = [having[1], ["var", aggs[having[0] % len(aggs)][0]], ["const", having[2]]]
    node = ["group", gkeys, aggs, pat, having_expr]
    want = ref.eval_group(node, env)
    # text
    q = gs.select_text(["sub", None, False, ["group", gkeys, aggs, pat, None], None, None, None])
    if having is not None:
        a = aggs[having[0] % len(aggs)]
        d = "DISTINCT " if a[3] else ""
        agg_txt = f"COUNT({d}*)" if a[1] == "count*" else (f"GROUP_CONCAT({d}{gs.expr_text(a[2])})" if a[1] == "group_concat" else f"{a[1].upper()}({d}{gs.expr_text(a[2])})")
        q += f" HAVING({agg_txt} {having[1]} {gs.term_text(having[2])})"
    res = sut(query, g, q)
    base = ref.eval_pattern(pat, env)
    if is_err(res):
        nonnum = any(a[1] in ("sum", "avg") for a in aggs)
        out.fail(("query-raises", res.kind, "sum/avg" if nonnum else "other", res.site), f"{q}\n data={case['data']['default']}: {res!r}")
        return out
    rvars, rows = res
    allv = keys + [a[0] for a in aggs]
    if rvars != allv:
        out.fail(("group-vars",), f"{q}: {rvars} expected {allv}")
        return out
    # match rows by key values
    def kv(m):
        return tuple(norm(m.get(k)) for k in keys)
    if not base and keys:
        # GROUP BY over no solutions: the algebra gives no group, the approved W3C test agg-empty-group expects one row with nothing bound
        if rows not in ([], [{}]):
            out.fail(("groups-differ", "empty-input-explicit-keys"), f"{q}: {rows}")
        out.nontrivial = True
        out.cls("mode:group", "empty-input-explicit-keys")
        return out
    wc, gc = Counter(kv(m) for m in want), Counter(kv(r) for r in rows)
    if wc != gc:
        out.fail(("groups-differ", "having" if having is not None else "no-having", "empty-input" if not base else "nonempty"),
                 f"{q}\n data={case['data']['default']}\n groups got {dict(gc)} expected {dict(wc)}")
        return out
    if max(wc.values(), default=0) > 1:
        out.fail(("group-key-repeated",), q)
        return out
    wmap, gmap = {kv(m): m for m in want}, {kv(r): r for r in rows}
    for k, wm in wmap.items():
        gm = gmap[k]
        for var, agg, expr, dist, sep in aggs:
            wv, gv = wm.get(var), gm.get(var)
            if isinstance(wv, tuple) and wv and wv[0] == "either":
                # some row of the group had no value for the expression: unbound (the specification) or the value over the other rows
                if gv is None:
                    continue
                wv = wv[1]
                out.cls("lenient-aggregate-over-error-row")
            if isinstance(wv, tuple) and wv and wv[0] == "sample":
                if gv is None or gv not in wv[1]:
                    out.fail(("aggregate-differs", "sample"), f"{q}: SAMPLE gave {gv}, group values {sorted(wv[1], key=repr)}")
                    return out
                continue
            if isinstance(wv, tuple) and wv and wv[0] == "concat":
                pieces = tuple(sorted(gv[1].split(wv[2]))) if gv is not None and wv[1] else (() if gv is None or gv[1] == "" else (gv[1],))
                if gv is None or gv[0] != "l" or (pieces != wv[1] and not (not wv[1] and gv[1] == "")):
                    out.fail(("aggregate-differs", "group_concat", "distinct" if dist else "all"), f"{q}\n data={case['data']['default']}\n got {gv} expected pieces {wv[1]} sep {wv[2]!r}")
                    return out
                continue
            if norm(wv) != norm(gv):
                out.fail(("aggregate-differs", agg, "distinct" if dist else "all", "empty-group" if not base else ("error-in-group" if wv is None else "value")),
                         f"{q}\n data={case['data']['default']}\n group {k}: ?{var} = {gv}, expected {wv}")
                return out
    sizes = Counter(kv2 for kv2 in (tuple(norm(m.get(k)) for k in keys) for m in base))
    out.nontrivial = (not base) or any(c >= 2 for c in sizes.values())
    out.cls("mode:group", "keys:%d" % len(keys), *["agg:" + a[1] for a in aggs], *(["having"] if having is not None else []), "empty-input" if not base else "nonempty")
    return out


@st.composite
def cases(draw, tier):
    data = {"default": draw(gs.data_triples()), "g1": [], "g2": []}
    pool = data["default"]
    pat = draw(gs.patterns(draw(st.integers(0, 2)), dataset=False, pool=pool))
    scope = sorted(ref.in_scope(pat))
    if draw(st.integers(0, 2)) == 0 and scope:
        keys = draw(st.lists(st.sampled_from(scope), max_size=2, unique=True))
        free = [v for v in ["n", "m", "k"]]
        naggs = draw(st.integers(1, 3))
        aggs = []
        for i in range(naggs):
            agg = draw(st.sampled_from(AGGS))
            expr = None if agg == "count*" else draw(st.one_of(st.sampled_from(scope).map(lambda v: ["var", v]), st.sampled_from(scope).map(lambda v: ["+", ["var", v], ["const", gs.LITS[0]]])))
            aggs.append([free[i], agg, expr, draw(st.booleans()) if agg not in ("min", "max", "sample") else False, "|" if agg == "group_concat" and draw(st.booleans()) else None])
        having = None
        if draw(st.integers(0, 3)) == 0:
            having = [draw(st.integers(0, 2)), draw(st.sampled_from([">", "<", "=", ">="])), draw(st.sampled_from(gs.LITS[:3]))]
        return {"mode": "group", "data": data, "pattern": pat, "keys": keys, "aggs": aggs, "having": having}
    vars_ = draw(st.one_of(st.none(), st.lists(st.sampled_from(scope + ["e"]), min_size=1, max_size=3, unique=True))) if scope else None
    order = None
    if scope and draw(st.booleans()):
        keyexpr = st.one_of(st.sampled_from(scope).map(lambda v: ["var", v]), st.sampled_from(scope).map(lambda v: ["+", ["var", v], ["const", gs.LITS[0]]]),
                            st.sampled_from(scope).map(lambda v: ["str", ["var", v]]))
        order = draw(st.lists(st.tuples(keyexpr, st.booleans()).map(list), min_size=1, max_size=3))
    limit = draw(st.one_of(st.none(), st.none(), st.integers(0, 5)))
    offset = draw(st.one_of(st.none(), st.none(), st.integers(0, 4)))
    return {"mode": "plain", "data": data, "pattern": pat, "vars": vars_, "distinct": draw(st.sampled_from(["none", "none", "distinct", "reduced"])),
            "order": order, "limit": limit, "offset": offset}


# ---------------------------------------------------------------- aggregate-focused sub-check
ONE = ["const", gs.LITS[0]]
# exactly representable doubles/floats, so that the order of summation cannot matter; in RDFLib's normal lexical form (C07/C09 own the others)
AGG_LITS = gs.LITS + [["l", "2.5", None, ref.DBL], ["l", "0.25", None, ref.DBL], ["l", "4.5", None, ref.XSD + "float"], ["l", "0.5", None, ref.DEC], ["l", "-2", None, ref.INT]]


def agg_text(a):
    var, agg, expr, dist, sep = a[:5]
    d = "DISTINCT " if dist else ""
    if agg == "count*":
        t = f"COUNT({d}*)"
    elif agg == "group_concat":
        t = f"GROUP_CONCAT({d}{gs.expr_text(expr)}" + (f'; SEPARATOR={gs.term_text(["l", sep, None, None])}' if sep is not None else "") + ")"
    else:
        t = f"{agg.upper()}({d}{gs.expr_text(expr)})"
    wrap = a[5] if len(a) > 5 else None
    if wrap is not None:
        t = f"({t} {wrap[0]} {gs.term_text(wrap[1])})"
    return t


def agg_query_text(case):
    head, gb = [], []
    for kx in case["keys"]:
        if isinstance(kx, str):
            head.append("?" + kx)
            gb.append("?" + kx)
        elif case.get("anon_keys"):
            head.append("?" + kx[2])
            gb.append(f"({gs.expr_text(kx[1])})")  # a bracketed expression without AS: cannot be projected, keys are hidden
        else:
            head.append("?" + kx[2])
            gb.append(f"({gs.expr_text(kx[1])} AS ?{kx[2]})")
    for a in case["aggs"]:
        head.append(f"({agg_text(a)} AS ?{a[0]})")
    if case.get("derived"):
        # a later SELECT expression may use the variable of an earlier one
        dop, dconst = case["derived"]
        head.append(f"(?{case['aggs'][0][0]} {dop} {gs.term_text(dconst)} AS ?dv)")
    if case.get("hide_keys"):
        head = head[len(case["keys"]):]
    q = f"SELECT {' '.join(head)} WHERE {gs.group_text(case['pattern'])}"
    if gb:
        q += " GROUP BY " + " ".join(gb)
    if case["having"] is not None and case["having"][0] == "key":
        _, kname, op, const = case["having"]
        q += f" HAVING(?{kname} {op} {gs.term_text(const)})"
    elif case["having"] is not None:
        i, op, const = case["having"]
        q += f" HAVING({agg_text(case['aggs'][i % len(case['aggs'])])} {op} {gs.term_text(const)})"
    if case["order"]:
        q += " ORDER BY " + " ".join(("DESC(?%s)" if desc else "ASC(?%s)") % v for v, desc in case["order"])
    if case["limit"] is not None:
        q += f" LIMIT {case['limit']}"
    return q


def concrete(v):
    """a marker of the reference -> the value it determines, or Grey"""
    if isinstance(v, tuple) and v and v[0] == "either":
        raise ref.Grey("value over a group with an expression error")
    if isinstance(v, tuple) and v and v[0] == "sample":
        if len(v[1]) != 1:
            raise ref.Grey("SAMPLE with several candidates")
        return next(iter(v[1]))
    if isinstance(v, tuple) and v and v[0] == "concat":
        if len(v[1]) > 1:
            raise ref.Grey("GROUP_CONCAT whose order is open")
        return ref.mk_str("".join(v[1]))
    return v


def run_aggs(case):
    out = _run_aggs(case)
    if not out.failures and any(a[1] == "group_concat" for a in case["aggs"]) and len(case["data"]["default"]) > 1:
        # the order in which the values of a group arrive is the store's; the same data put in the other way round shows a
        # concatenation both ways round
        rev = dict(case, data=dict(case["data"], default=case["data"]["default"][::-1]))
        out2 = _run_aggs(rev)
        if out2.failures:
            return out2
    return out


def _run_aggs(case):
    out = Out()
    pat = case["pattern"]
    if not c04.valid(pat):
        return out
    if (c04.contains(pat, "values") and (c04.contains(pat, "opt") or c04.contains(pat, "bind"))) or c04.filter_out_of_scope(pat) or \
            c04.pushes_into_scoped_operator(pat) or c04.subselect_hides_shared_var(pat):
        out.cls("c04-finding-class-skipped")
        return out
    env = ref.Env(refds(case["data"]), False)
    g = build_graph(case["data"])
    keys, aggs, having, order, limit = case["keys"], case["aggs"], case["having"], case["order"], case["limit"]
    if len({a[0] for a in aggs} | {k if isinstance(k, str) else k[2] for k in keys}) != len(aggs) + len(keys):
        return out
    try:
        gkeys = [["v", k] if isinstance(k, str) else [k[1], k[2]] for k in keys]
        base = ref.eval_pattern(pat, env)
        want = ref.eval_group(["group", gkeys, [a[:5] for a in aggs], pat, None], env)
        q = agg_query_text(case)
        res = sut(query, g, q)
        if is_err(res):
            out.fail(("query-raises", res.kind, res.site), f"{q}\n data={case['data']['default']}: {res!r}")
            return out
        rvars, rows = res
        knames = [k if isinstance(k, str) else k[2] for k in keys]
        derived = case.get("derived")
        allv = ([] if case.get("hide_keys") else knames) + [a[0] for a in aggs] + (["dv"] if derived else [])
        if rvars != allv:
            out.fail(("group-vars",), f"{q}: {rvars} expected {allv}")
            return out
        if not base and keys:
            if rows not in ([], [{}]):
                out.fail(("groups-differ", "empty-input-explicit-keys"), f"{q}: {rows}")
            out.nontrivial = True
            out.cls("empty-input-explicit-keys")
            return out
        # wraps: an arithmetic expression around the aggregate
        lenient_rows = False
        for mu in want:
            for a in aggs:
                wrap = a[5] if len(a) > 5 else None
                if wrap is None or a[0] not in mu:
                    continue
                v = mu[a[0]]
                either = isinstance(v, tuple) and v and v[0] == "either"
                if either:
                    v = v[1]
                    if v is None:
                        mu[a[0]] = ("either", None)
                        continue
                try:
                    w = ref.eval_expr([wrap[0], ["var", "_"], ["const", wrap[1]]], {"_": concrete(v)}, env)
                except ref.ExprError:
                    w = None
                if either:
                    mu[a[0]] = ("either", w)
                elif w is None:
                    del mu[a[0]]
                else:
                    mu[a[0]] = w
        if derived:
            for mu in want:
                v = mu.get(aggs[0][0])
                if v is None:
                    continue
                try:
                    w = ref.eval_expr([derived[0], ["var", "_"], ["const", derived[1]]], {"_": concrete(v)}, env)
                except ref.ExprError:
                    w = None
                if w is not None:
                    mu["dv"] = w
            out.cls("derived-select-expression")
        if having is not None and having[0] == "key":
            # a condition on a grouping key (no aggregate in it), whether or not the key is projected
            _, kname, op, const = having
            want = [mu for mu in want if kname in mu and ref.filter_true([op, ["var", kname], ["const", const]], {kname: mu[kname]}, env)]
        elif having is not None:
            i, op, const = having
            hv = aggs[i % len(aggs)][0]
            kept = []
            for mu in want:
                hmu = {hv: concrete(mu[hv])} if hv in mu else {}
                if ref.filter_true([op, ["var", hv], ["const", const]], hmu, env):
                    kept.append(mu)
            want = kept
        if case.get("hide_keys") or limit is not None:
            # rows cannot be matched by key: compare counts, then the multiset of fully determined rows
            exp_n = len(want) if limit is None else min(limit, len(want))
            if len(rows) != exp_n:
                out.fail(("group-count-differs", "limit" if limit is not None else "keys-hidden"), f"{q}\n data={case['data']['default']}\n {len(rows)} rows, expected {exp_n}")
                return out
            if limit is None:
                try:
                    wc = Counter(tuple(norm(concrete(mu[v])) if v in mu else None for v in allv) for mu in want)
                except ref.Grey:
                    wc = None
                if wc is not None and wc != Counter(row_key(r, allv) for r in rows):
                    out.fail(("aggregate-rows-differ", "keys-hidden"), f"{q}\n data={case['data']['default']}\n got {rows}\n expected {want}")
                    return out
        else:
            def kv(m):
                return tuple(norm(m.get(k)) for k in knames)
            wc, gc = Counter(kv(m) for m in want), Counter(kv(r) for r in rows)
            if wc != gc:
                out.fail(("groups-differ", "having" if having is not None else "no-having"), f"{q}\n data={case['data']['default']}\n groups got {dict(gc)} expected {dict(wc)}")
                return out
            if max(wc.values(), default=0) > 1:
                raise ref.Grey("expression keys that coincide")
            wmap, gmap = {kv(m): m for m in want}, {kv(r): r for r in rows}
            for k, wm in wmap.items():
                gm = gmap[k]
                if derived and norm(wm.get("dv")) != norm(gm.get("dv")):
                    out.fail(("select-expression-over-an-earlier-alias", "unbound" if gm.get("dv") is None else "value"),
                             f"{q}\n data={case['data']['default']}\n group {k}: ?dv = {gm.get('dv')}, expected {wm.get('dv')}")
                    return out
                for a in aggs:
                    var, agg, dist = a[0], a[1], a[3]
                    wv, gv = wm.get(var), gm.get(var)
                    if isinstance(wv, tuple) and wv and wv[0] == "either":
                        if gv is None:
                            continue
                        wv = wv[1]
                        lenient_rows = True
                    if isinstance(wv, tuple) and wv and wv[0] == "sample":
                        if gv is None or gv not in wv[1]:
                            out.fail(("aggregate-differs", "sample"), f"{q}: SAMPLE gave {gv}, group values {sorted(wv[1], key=repr)}")
                            return out
                        continue
                    if isinstance(wv, tuple) and wv and wv[0] == "concat":
                        if gv is None or gv[0] != "l" or gv[2] not in (None, ref.STR) or gv[3] is not None:
                            out.fail(("aggregate-differs", "group_concat", "not-a-plain-string"), f"{q}: {gv}")
                            return out
                        pieces = tuple(sorted(gv[1].split(wv[2]))) if wv[1] else ((gv[1],) if gv[1] else ())
                        if wv[2] and any(wv[2] in x for x in wv[1]):
                            continue  # the separator occurs inside a piece: the split is ambiguous
                        if pieces != wv[1]:
                            out.fail(("aggregate-differs", "group_concat", "distinct" if dist else "all"), f"{q}\n data={case['data']['default']}\n got {gv} expected pieces {wv[1]} sep {wv[2]!r}")
                            return out
                        continue
                    if norm(wv) != norm(gv):
                        out.fail(("aggregate-differs", agg, "distinct" if dist else "all", "wrapped" if len(a) > 5 and a[5] else "bare", "unbound-expected" if wv is None else "value"),
                                 f"{q}\n data={case['data']['default']}\n group {k}: ?{var} = {gv}, expected {wv}")
                        return out
        if order and case.get("hide_keys") and limit is None:
            # ORDER BY on grouping keys that are not projected: the expected sequence is determined when no two groups tie
            import functools

            def cmp(m1, m2):
                for v, desc in order:
                    c = ref.order_key_cmp(concrete(m1[v]) if v in m1 else None, concrete(m2[v]) if v in m2 else None)
                    if c:
                        return -c if desc else c
                return 0
            seq = sorted(want, key=functools.cmp_to_key(cmp))
            if all(cmp(a, b) != 0 for a, b in zip(seq, seq[1:])):
                expected = [tuple(norm(concrete(mu[v])) if v in mu else None for v in allv) for mu in seq]
                if [row_key(r, allv) for r in rows] != expected:
                    out.fail(("order-by-violated", "key-not-projected"), f"{q}\n data={case['data']['default']}\n got {rows}\n expected order {expected}")
                    return out
                out.cls("order-by-hidden-key")
        elif order:
            for r1, r2 in zip(rows, rows[1:]):
                for v, desc in order:
                    if v not in allv:
                        break  # ordered by a key that is not projected: this pair cannot be judged from the rows
                    try:
                        c = ref.order_key_cmp(r1.get(v), r2.get(v))
                    except ref.Grey:
                        break
                    if desc:
                        c = -c
                    if c < 0:
                        break
                    if c > 0:
                        out.fail(("order-by-alias-violated", "desc" if desc else "asc"), f"{q}\n data={case['data']['default']}\n row {r1} is before {r2}")
                        return out
    except ref.Grey as e:
        out.cls("grey:" + str(e)[:30])
        return out
    sizes = Counter(tuple(repr(x) for x in (m.get(k) for k in [kx[1] for kx in gkeys if ref.is_var(kx)])) for m in base)
    out.nontrivial = bool(base) and (any(c >= 2 for c in sizes.values()) or len(sizes) >= 2)
    out.cls("keys:%d" % len(keys), *["agg:" + a[1] for a in aggs], *(["wrapped"] if any(len(a) > 5 and a[5] for a in aggs) else []),
            *(["expr-key"] if any(not isinstance(k, str) for k in keys) else []), *(["having"] if having is not None else []), *(["having-on-key"] if having is not None and having[0] == "key" else []),
            *(["order-by-alias"] if order else []), *(["limit"] if limit is not None else []), *(["keys-hidden"] if case.get("hide_keys") else []),
            *(["lenient-aggregate-over-error-row"] if lenient_rows else []), "groups:%d" % min(len(want), 4), "max-group:%d" % min(max(sizes.values(), default=0), 4))
    return out


@st.composite
def agg_cases(draw, tier):
    if draw(st.integers(0, 7)) == 0:
        # GROUP_CONCAT over groups that hold nothing but plain literals, empty strings and strings made of the separator among them
        # (the general cases below mostly have IRIs or blank nodes in the group, for which the result is not determined)
        strs = [gs.LITS[5], gs.LITS[4], ["l", " ", None, None], ["l", "|", None, None], ["l", "a b", None, None], ["l", "z", None, None]]
        subs = [gs.NODES[0], gs.NODES[1]]
        p = draw(st.sampled_from(gs.PREDS))
        data = {"default": draw(st.lists(st.tuples(st.sampled_from(subs), st.just(p), st.sampled_from(strs)).map(list), min_size=2, max_size=6, unique_by=repr)),
                "g1": [], "g2": []}
        pat = ["bgp", [[["v", "s"], p, ["v", "o"]]]]
        aggs = [["n0", "group_concat", ["var", "o"], draw(st.booleans()), draw(st.sampled_from([None, "|", ", "])), None]]
        if draw(st.booleans()):
            aggs.append(["n1", "count", ["var", "o"], False, None, None])
        return {"mode": "aggs", "data": data, "pattern": pat, "keys": draw(st.sampled_from([[], ["s"]])), "aggs": aggs, "having": None, "order": None,
                "limit": None, "hide_keys": False, "anon_keys": False, "derived": None}
    data = {"default": draw(st.lists(st.tuples(st.sampled_from(gs.NODES), st.sampled_from(gs.PREDS), st.one_of(st.sampled_from(AGG_LITS), st.sampled_from(AGG_LITS[:4] + AGG_LITS[-5:] + [gs.LITS[5], gs.LITS[4]]), st.sampled_from(gs.NODES))).map(list),
                                     min_size=3, max_size=10, unique_by=repr)), "g1": [], "g2": []}
    pool = data["default"]
    shape = draw(st.integers(0, 3))
    spo = ["bgp", [[["v", "s"], ["v", "p"], ["v", "o"]]]]
    if shape == 0:
        pat = spo
    elif shape == 1:
        pat = ["bgp", [[["v", "s"], draw(st.sampled_from(gs.PREDS)), ["v", "o"]]]]
    elif shape == 2:
        pat = ["opt", ["bgp", [[["v", "s"], draw(st.sampled_from(gs.PREDS)), ["v", "o"]]]], ["bgp", [[["v", "s"], draw(st.sampled_from(gs.PREDS)), ["v", "x"]]]], None]
    else:
        pat = draw(gs.patterns(draw(st.integers(0, 1)), dataset=False, pool=pool))
    scope = sorted(ref.in_scope(pat))
    if not scope:
        pat, scope = spo, ["o", "p", "s"]
    vexpr = st.one_of(st.sampled_from(scope).map(lambda v: ["var", v]), st.sampled_from(scope).map(lambda v: ["var", v]),
                      st.sampled_from(scope).map(lambda v: ["+", ["var", v], ONE]), st.sampled_from(scope).map(lambda v: ["str", ["var", v]]),
                      st.sampled_from(scope).map(lambda v: ["*", ["var", v], ["const", gs.LITS[1]]]))
    keys = []
    for i in range(draw(st.sampled_from([0, 1, 1, 1, 2]))):
        if draw(st.integers(0, 3)) == 0:
            keys.append(["expr", draw(vexpr), "k%d" % i])
        else:
            v = draw(st.sampled_from(scope))
            if v not in keys:
                keys.append(v)
    aggs = []
    for i in range(draw(st.integers(1, 3))):
        agg = draw(st.sampled_from(AGGS))
        expr = None if agg == "count*" else draw(vexpr)
        a = ["n%d" % i, agg, expr, draw(st.booleans()), "|" if agg == "group_concat" and draw(st.booleans()) else None]
        if agg in ("count*", "count", "sum", "avg", "min", "max") and draw(st.integers(0, 3)) == 0:
            a.append([draw(st.sampled_from(["+", "*", "-", "/"])), draw(st.sampled_from(gs.LITS[:3]))])
        else:
            a.append(None)
        aggs.append(a)
    if any(a[1] == "group_concat" for a in aggs) and draw(st.booleans()):
        # strings that are empty or hold the default separator beside other values of the same subject and predicate, anywhere in
        # the order of arrival: pieces that a concatenation can lose or double without any other aggregate noticing
        t = draw(st.sampled_from(data["default"]))
        extra = [t[0], t[1], draw(st.sampled_from([gs.LITS[5], gs.LITS[5], ["l", " ", None, None], gs.LITS[4]]))]
        if extra not in data["default"]:
            data["default"].insert(draw(st.integers(0, len(data["default"]))), extra)
    having = None
    if draw(st.integers(0, 3)) == 0:
        having = [draw(st.integers(0, 2)), draw(st.sampled_from([">", "<", "=", ">=", "!="])), draw(st.sampled_from(gs.LITS[:3]))]
    names = [k if isinstance(k, str) else k[2] for k in keys] + [a[0] for a in aggs]
    if keys and draw(st.integers(0, 3)) == 0:
        kn = names[draw(st.integers(0, len(keys) - 1))]
        having = ["key", kn, draw(st.sampled_from(["!=", "=", ">", "<"])), draw(st.sampled_from(gs.LITS[:3] + gs.NODES[:2]))]
    order = None
    if draw(st.integers(0, 2)) == 0:
        order = draw(st.lists(st.tuples(st.sampled_from(names), st.booleans()).map(list), min_size=1, max_size=2))
    limit = draw(st.one_of(st.none(), st.none(), st.none(), st.integers(0, 3)))
    anon = any(not isinstance(k, str) for k in keys) and draw(st.integers(0, 2)) == 0
    if anon:
        # the unnamed expression keys cannot be referred to: no HAVING / ORDER BY on them
        exprnames = {k[2] for k in keys if not isinstance(k, str)}
        if having is not None and having[0] == "key" and having[1] in exprnames:
            having = None
        if order:
            order = [o for o in order if o[0] not in exprnames] or None
    derived = None
    if aggs[0][1] in ("count*", "count", "sum", "avg") and draw(st.integers(0, 2)) == 0:
        derived = [draw(st.sampled_from(["+", "*", "-"])), draw(st.sampled_from(gs.LITS[:3]))]
    return {"mode": "aggs", "data": data, "pattern": pat, "keys": keys, "aggs": aggs, "having": having, "order": order, "limit": limit,
            "hide_keys": anon or (bool(keys) and draw(st.integers(0, 3)) == 0), "anon_keys": anon, "derived": derived}


SUBCHECKS = [Sub("modifiers", lambda tier: cases(tier), run, {"quick": 9000, "thorough": 300000}),
             Sub("aggregates", lambda tier: agg_cases(tier), run_aggs, {"quick": 9000, "thorough": 300000})]


# ---------------------------------------------------------------- ordering with ties by value
TIE_VALUES = [["l", "1", None, ref.INT], ["l", "1.0", None, ref.DEC], ["l", "1.0", None, ref.DBL], ["l", "2", None, ref.INT], ["l", "2.0", None, ref.DEC],
              ["l", "a", None, None], ["l", "a", None, ref.XSD + "string"], ["u", "urn:a"], ["l", "0", None, ref.INT]]


def run_order(case):
    """rows (?s ?k1 ?k2 ?k3) ordered by 2-3 keys; rows that tie on a key by value but not by identity (1, 1.0, 1.0e0) must be ordered by the later keys"""
    out = Out()
    g = Graph()
    P = [T(["u", "urn:k%d" % i]) for i in range(3)]
    rows_in = case["rows"]
    if not rows_in or not case["order"]:
        return out
    for i, vals in enumerate(rows_in):
        s = T(["u", "urn:r%d" % i])
        for j, v in enumerate(vals):
            if v is not None:
                g.add((s, P[j], T(v)))
    body = "?s <urn:k0> ?k0 . " + " ".join("OPTIONAL { ?s <urn:k%d> ?k%d }" % (j, j) for j in (1, 2))
    q = "SELECT ?s ?k0 ?k1 ?k2 WHERE { %s } ORDER BY %s" % (body, " ".join(("DESC(?k%d)" if d else "ASC(?k%d)") % j for j, d in case["order"]))
    res = sut(query, g, q)
    if is_err(res):
        out.fail(("query-raises", res.kind, res.site), f"{q}: {res!r}")
        return out
    rows = res[1]
    expect_n = sum(1 for vals in rows_in if vals[0] is not None)
    if len(rows) != expect_n:
        out.fail(("order-by-changes-row-count",), f"{q}: {len(rows)} rows, expected {expect_n}")
        return out
    tied = False
    for a, b in zip(rows, rows[1:]):
        for j, d in case["order"]:
            x, y = a.get("k%d" % j), b.get("k%d" % j)
            try:
                c = ref.order_key_cmp(x, y)
            except ref.Grey:
                break
            if c == 0 and x != y:
                tied = True
            if d:
                c = -c
            if c < 0:
                break
            if c > 0:
                out.fail(("order-by-violated", "value-tie-on-earlier-key" if tied else "plain", "desc" if d else "asc", "%d-keys" % len(case["order"])),
                         f"{q}\n rows in={rows_in}\n row {a} is before {b}")
                return out
    out.nontrivial = tied
    out.cls("mode:order", "keys:%d" % len(case["order"]), "same-direction" if len({d for _, d in case["order"]}) == 1 else "mixed-direction", *(["value-tie"] if tied else []))
    return out


@st.composite
def order_cases(draw, tier):
    val = st.one_of(st.sampled_from(TIE_VALUES), st.sampled_from(TIE_VALUES[:5]), st.none())
    rows = draw(st.lists(st.tuples(st.sampled_from(TIE_VALUES[:5] + TIE_VALUES[5:7]), val, val).map(list), min_size=2, max_size=7))
    n = draw(st.integers(2, 3))
    same = draw(st.booleans())
    d0 = draw(st.booleans())
    order = [[j, d0 if same else draw(st.booleans())] for j in draw(st.permutations([0, 1, 2]))[:n]]
    return {"mode": "order", "rows": rows, "order": order}


SUBCHECKS.append(Sub("ordering", lambda tier: order_cases(tier), run_order, {"quick": 4000, "thorough": 100000}))
