"""C15 — query answers do not depend on how the query is written, prepared or stored.

Metamorphic / differential, inside RDFLib only (no reference evaluator): a generated query is answered twice and the two answers must be
the same multiset of solutions.
  rewrites     q vs r(q): BGP triple patterns permuted, join / UNION operands swapped, nested joins re-associated, variables renamed by a
               bijection, IRIs spelled with PREFIX declarations or initNs, redundant braces / comments
  initbindings query(q, initBindings={v: t}) vs q joined with VALUES (?v) {(t)}, v bound by the outermost BGP
  prepared     one prepareQuery() object evaluated 2-4 times over 1-3 graphs with differing initBindings vs a fresh parse each time
  stores       the same triples in Memory, SimpleMemory, AuditableStore(Memory), a ReadOnlyGraphAggregate over a partition, a Dataset's
               default graph"""
from __future__ import annotations

import json
import re
import warnings
from collections import Counter

from hypothesis import strategies as st

import rdflib.plugins.sparql as sparql_mod
from rdflib import ConjunctiveGraph, Dataset, Graph, URIRef, Variable
from rdflib.graph import ReadOnlyGraphAggregate
from rdflib.plugins.sparql import prepareQuery
from rdflib.plugins.stores.auditable import AuditableStore
from rdflib.plugins.stores.memory import Memory

from pbt.codec import T, key
from pbt.core import Out, Sub, is_err, sut
from pbt.gen import sparql as gs
from pbt.oracle import sparqlref as ref
from pbt.props import c04, c08, c11

RULE = ("queries from the C04 pattern generator (depth <=2, data-derived BGPs, Graph and Dataset targets), the C08 modifier / aggregate generators and "
        "the C11 path generator; rewrites drawn per case (permutation keys, swap / re-association flags, variable bijection, spelling mode); 1-3 graphs per prepared "
        "sequence; 5 store configurations. Non-trivial = the rewrite changed the text and the answer is non-empty / the sequence has >=2 evaluations "
        "differing in graph or bindings / the answer is non-empty and the stores really differ; distinct by SHA-1 of the case JSON.")
ASSUMPTIONS = ["answers are compared as multisets of rows (sequences are not compared: tie order under ORDER BY is not determined)",
               "queries with LIMIT/OFFSET are compared by row count only; SAMPLE and GROUP_CONCAT columns are not compared across stores or rewrites",
               "patterns in the classes of C04's recorded findings are not used (several are order dependent by nature; they are C04's subject)",
               "blank node values cannot be written in VALUES, so initBindings with blank nodes are not compared"]


# ---------------------------------------------------------------- helpers
def rows_of(result, rename=None):
    c = Counter()
    for b in result.bindings:
        items = []
        for k, v in b.items():
            if v is None:
                continue
            name = str(k)
            if rename:
                name = rename.get(name, name)
            items.append((name, key(v)))
        c[frozenset(items)] += 1
    return c


def c04_class(pat):
    return (c04.contains(pat, "values") and (c04.contains(pat, "opt") or c04.contains(pat, "bind"))) or c04.filter_out_of_scope(pat) or \
        c04.graph_var_over_values(pat) or c04.pushes_into_scoped_operator(pat) or c04.subselect_hides_shared_var(pat)


def graph_of(triples, store="Memory"):
    g = Graph(store=store) if isinstance(store, str) else Graph(store=store)
    for t in triples:
        g.add(tuple(T(x) for x in t))
    return g


def run_query(target, q, **kw):
    with warnings.catch_warnings():
        warnings.simplefilter("ignore")
        r = target.query(q, **kw)
        return rows_of(r), len(r.bindings)


# ---------------------------------------------------------------- rewrites
def permute(p, keys):
    """BGP triple patterns reordered by the drawn keys"""
    if p[0] == "bgp":
        n = len(p[1])
        order = sorted(range(n), key=lambda i: (keys[i % len(keys)], i))
        return ["bgp", [p[1][i] for i in order]]
    return [p[0]] + [permute(x, keys) if isinstance(x, list) and x and isinstance(x[0], str) and x[0] in c04.KINDS else x for x in p[1:]]


def swap(p, flags, pos=[0]):
    if not flags:
        return p
    if p[0] in ("join", "union"):
        a, b = swap(p[1], flags), swap(p[2], flags)
        f = flags[(len(json.dumps(p))) % len(flags)]
        return [p[0], b, a] if f else [p[0], a, b]
    return [p[0]] + [swap(x, flags) if isinstance(x, list) and x and isinstance(x[0], str) and x[0] in c04.KINDS else x for x in p[1:]]


def reassoc(p, flags):
    """join is associative: { A } { { B } { C } } == { { A } { B } } { C } (every operand keeps its own braces, so FILTER / BIND scopes stay)"""
    if not flags:
        return p
    if p[0] == "join":
        a, b = reassoc(p[1], flags), reassoc(p[2], flags)
        f = flags[(len(json.dumps(p)) + 1) % len(flags)]
        if f and b[0] == "join":
            return ["join", ["join", a, b[1]], b[2]]
        if f and a[0] == "join":
            return ["join", a[1], ["join", a[2], b]]
        return ["join", a, b]
    return [p[0]] + [reassoc(x, flags) if isinstance(x, list) and x and isinstance(x[0], str) and x[0] in c04.KINDS else x for x in p[1:]]


def rename_expr(e, m):
    if not isinstance(e, list) or not e:
        return e
    if e[0] in ("var", "bound") and isinstance(e[1], str):
        return [e[0], m.get(e[1], e[1])]
    if e[0] in ("exists", "notexists"):
        return [e[0], rename(e[1], m)]
    if e[0] == "const":
        return e
    out = [e[0]]
    for x in e[1:]:
        if isinstance(x, list) and x and isinstance(x[0], str):
            out.append(rename_expr(x, m))
        elif isinstance(x, list):
            out.append([rename_expr(y, m) for y in x])
        else:
            out.append(x)
    return out


def rename_term(x, m):
    return ["v", m.get(x[1], x[1])] if isinstance(x, list) and x and x[0] == "v" else x


def rename(p, m):
    k = p[0]
    if k == "bgp":
        return ["bgp", [[rename_term(x, m) for x in tp] for tp in p[1]]]
    if k in ("join", "union", "minus"):
        return [k, rename(p[1], m), rename(p[2], m)]
    if k == "opt":
        return ["opt", rename(p[1], m), rename(p[2], m), rename_expr(p[3], m) if p[3] is not None else None]
    if k == "filter":
        return ["filter", rename_expr(p[1], m), rename(p[2], m)]
    if k == "bind":
        return ["bind", rename(p[1], m), rename_expr(p[2], m), m.get(p[3], p[3])]
    if k == "values":
        return ["values", [m.get(v, v) for v in p[1]], p[2]]
    if k == "graph":
        return ["graph", rename_term(p[1], m), rename(p[2], m)]
    if k == "sub":
        return ["sub", [m.get(v, v) for v in p[1]] if p[1] is not None else None, p[2], rename(p[3], m)] + list(p[4:])
    raise ValueError(p)


def respell(text, mode):
    """IRIs as prefixed names: mode 1 = PREFIX declarations, mode 2 = names resolved through initNs"""
    if mode == 4:
        # numbers and booleans as bare tokens: "1.5"^^xsd:decimal is 1.5, "-1"^^xsd:integer is -1, "true"^^xsd:boolean is true
        X = "http://www.w3.org/2001/XMLSchema#"
        t = re.sub(r'"([+-]?[0-9]+)"\^\^<' + X + 'integer>', r" \1 ", text)
        t = re.sub(r'"([+-]?[0-9]*\.[0-9]+)"\^\^<' + X + 'decimal>', r" \1 ", t)
        t = re.sub(r'"([+-]?(?:[0-9]+\.[0-9]*|\.[0-9]+|[0-9]+)[eE][+-]?[0-9]+)"\^\^<' + X + 'double>', r" \1 ", t)
        t = re.sub(r'"(true|false)"\^\^<' + X + 'boolean>', r" \1 ", t)
        return t, {}
    if mode == 0:
        return text, {}
    # (a local name may hold characters of the IRI that are reserved in the grammar when they are escaped with a backslash)
    t = re.sub(r"<urn:([A-Za-z][A-Za-z0-9/~]*)>", lambda m: "u:" + re.sub(r"([/~])", r"\\\1", m.group(1)), text)
    t = re.sub(r"<http://www.w3.org/2001/XMLSchema#([A-Za-z]+)>", r"x:\1", t)
    if mode == 1:
        return "PREFIX u: <urn:>\nPREFIX x: <http://www.w3.org/2001/XMLSchema#>\n" + t, {}
    if mode == 3:
        # two prefixes for one namespace, used in turn
        n = [0]

        def alt(m):
            n[0] += 1
            return ("u:" if n[0] % 2 else "v:") + m.group(1)
        t = re.sub(r"\bu:([A-Za-z][A-Za-z0-9]*)", alt, t)
        return "PREFIX u: <urn:>\nPREFIX v: <urn:>\nPREFIX x: <http://www.w3.org/2001/XMLSchema#>\n" + t, {}
    return t, {"initNs": {"u": URIRef("urn:"), "x": URIRef("http://www.w3.org/2001/XMLSchema#")}}


def run_rewrite(case):
    out = Out()
    if case.get("iri_variant"):
        # one of the IRIs of the case has a path and a tilde in it: as a prefixed name it is written u:c\/d\~e
        case = json.loads(json.dumps(case).replace('"urn:c"', '"urn:c/d~e"'))
    pat = case["pattern"]
    if not c04.valid(pat) or (case["vars"] is not None and not case["vars"]):
        return out
    if c04_class(pat):
        out.cls("c04-finding-class-skipped")
        return out
    rw = case["rewrite"]
    target, _, _ = c04.build_data(case)
    vars_ = case["vars"]
    head = "*" if vars_ is None else " ".join("?" + v for v in vars_)
    q1 = f"SELECT {head} WHERE {gs.group_text(pat)}"
    p2 = pat
    applied = []
    if rw["permute"]:
        p2 = permute(p2, rw["keys"])
    if rw["swap"]:
        p2 = swap(p2, rw["flags"])
    before_assoc = p2
    if rw.get("assoc"):
        p2 = reassoc(p2, rw["flags"])
    m = {}
    if rw["rename"]:
        names = gs.VARS
        m = {a: b for a, b in zip(names, rw["rename"])}
        p2 = rename(p2, m)
    if not c04.valid(p2):
        return out
    if c04_class(p2):
        out.cls("c04-finding-class-skipped")
        return out
    inv = {b: a for a, b in m.items()}
    head2 = "*" if vars_ is None else " ".join("?" + m.get(v, v) for v in vars_)
    body2 = gs.group_text(p2)
    if rw["braces"]:
        body2 = "{ # redundant group\n " + body2 + "\n}"
    q2 = f"SELECT {head2} WHERE {body2}"
    q2, kw = respell(q2, rw["spelling"])
    flag = case.get("flag", True)
    old = sparql_mod.SPARQL_DEFAULT_GRAPH_UNION
    sparql_mod.SPARQL_DEFAULT_GRAPH_UNION = flag
    try:
        r1 = sut(run_query, target, q1)
        r2 = sut(lambda: (lambda r: (rows_of(r, inv), len(r.bindings)))(_q(target, q2, kw)))
    finally:
        sparql_mod.SPARQL_DEFAULT_GRAPH_UNION = old
    changed = [n for n, on in (("permute", p2 != pat and rw["permute"]), ("swap", rw["swap"] and json.dumps(swap(pat, rw["flags"])) != json.dumps(pat)),
                               ("assoc", rw.get("assoc") and json.dumps(rename(before_assoc, m) if m else before_assoc) != json.dumps(p2)),
                               ("rename", bool(m) and any(a != b for a, b in m.items())), ("spelling", rw["spelling"] != 0), ("braces", rw["braces"])) if on]
    where = f"{q1}\n vs\n{q2}\n data={case['data']} kind={case['kind']} flag={flag}"
    if is_err(r1) and is_err(r2):
        out.cls("both-raise")
        return out
    if is_err(r1) or is_err(r2):
        e = r1 if is_err(r1) else r2
        out.fail(("one-spelling-raises", e.kind, "+".join(changed) or "none", e.site), f"{where}: {e!r}")
        return out
    if r1[0] != r2[0]:
        # attribute to a single rewrite where possible
        out.fail(("answers-differ", "+".join(changed) or "none", "count" if sum(r1[0].values()) != sum(r2[0].values()) else "values"),
                 f"{where}\n first-only={list((r1[0] - r2[0]).items())[:3]}\n second-only={list((r2[0] - r1[0]).items())[:3]}")
        return out
    out.nontrivial = bool(changed) and bool(r1[0])
    out.cls(*["rw:" + c for c in changed], "kind:" + case["kind"], "rows:%d" % min(sum(r1[0].values()), 3), "ops:%d" % min(gs.n_operators(pat), 3))
    return out


def _q(target, q, kw):
    with warnings.catch_warnings():
        warnings.simplefilter("ignore")
        return target.query(q, **kw)


@st.composite
def rewrite_cases(draw, tier):
    kind = draw(st.sampled_from(["graph", "graph", "dataset", "dataset-union"]))
    data = draw(gs.datasets()) if kind != "graph" else {"default": draw(gs.data_triples()), "g1": [], "g2": []}
    pool = data["default"] + (data["g1"] + data["g2"] if kind != "graph" else [])
    pat = draw(gs.patterns(draw(st.integers(0, 3 if tier == "thorough" else 2)), dataset=kind != "graph", pool=pool))
    scope = sorted(ref.in_scope(pat))
    vars_ = draw(st.one_of(st.none(), st.none(), st.lists(st.sampled_from(scope), min_size=1, max_size=3, unique=True))) if scope else None
    rw = {"permute": draw(st.booleans()), "keys": draw(st.lists(st.integers(0, 9), min_size=4, max_size=4)),
          "swap": draw(st.booleans()), "flags": draw(st.lists(st.booleans(), min_size=3, max_size=3)),
          "rename": draw(st.one_of(st.none(), st.permutations(gs.VARS), st.just(["v1", "x", "zz", "A", "_u"]))),
          "spelling": draw(st.integers(0, 4)), "braces": draw(st.booleans()), "assoc": draw(st.booleans())}
    return {"kind": kind, "data": data, "pattern": pat, "vars": vars_, "rewrite": rw, "flag": True if kind != "dataset" else draw(st.booleans()),
            "iri_variant": draw(st.booleans())}


# ---------------------------------------------------------------- initBindings == VALUES
def run_initbindings(case):
    out = Out()
    pat, var, val = case["pattern"], case["var"], case["value"]
    if not c04.valid(pat):
        return out
    if c04_class(pat) or c04.contains(pat, "values"):
        out.cls("c04-finding-class-skipped")
        return out
    outer = case["outer"]
    if var not in ref.in_scope(outer) or val[0] == "b" or json.dumps(outer) not in json.dumps(pat):
        return out
    for sp in c04.subpatterns(pat):
        if sp[0] == "sub" and var in c04.all_vars(sp[3]) | set(sp[1] or []):
            return out  # a sub-query reuses the variable: outside the statement
    g = graph_of(case["data"])
    q1 = f"SELECT * WHERE {gs.group_text(pat)}"
    q2 = f"SELECT * WHERE {gs.group_text(['join', pat, ['values', [var], [[val]]]])}"
    r1 = sut(run_query, g, q1, initBindings={var: T(val)})
    r1b = sut(run_query, g, q1, initBindings={Variable(var): T(val)})
    r2 = sut(run_query, g, q2)
    where = f"{q1} initBindings={{{var}: {val}}}\n vs\n{q2}\n data={case['data']}"
    tops = "+".join(sorted({sp[0] for sp in c04.subpatterns(pat)} - {"bgp"})) or "bgp"
    if is_err(r2):
        out.cls("values-form-raises")
        return out
    if is_err(r1) or is_err(r1b):
        e = r1 if is_err(r1) else r1b
        out.fail(("initbindings-raises", e.kind, e.site), f"{where}: {e!r}")
        return out
    if r1[0] != r1b[0]:
        out.fail(("initbindings-str-vs-variable-key",), where)
        return out
    if r1[0] != r2[0]:
        out.fail(("initbindings-differs-from-values", tops, "count" if sum(r1[0].values()) != sum(r2[0].values()) else "values"),
                 f"{where}\n initBindings-only={list((r1[0] - r2[0]).items())[:3]}\n values-only={list((r2[0] - r1[0]).items())[:3]}")
        return out
    out.nontrivial = bool(r2[0]) and tops != "bgp"
    out.cls("shape:" + tops, "rows:%d" % min(sum(r2[0].values()), 3))
    return out


@st.composite
def initbinding_cases(draw, tier):
    data = draw(gs.data_triples().filter(lambda d: len(d) >= 1))
    outer = draw(gs.bgp(pool=data))
    pat = outer
    for _ in range(draw(st.integers(0, 2))):
        k = draw(st.sampled_from(["opt", "opt-filter", "filter", "minus", "bind", "join-union", "join-sub", "join-bgp", "sub-join", "union-join", "group-join"]))
        other = draw(gs.bgp(pool=data))
        if k == "opt":
            pat = ["opt", pat, other, None]
        elif k == "opt-filter":
            pat = ["opt", pat, other, draw(gs.exprs(1, exists=False))]
        elif k == "filter":
            pat = ["filter", draw(gs.exprs(2)), pat]
        elif k == "minus":
            pat = ["minus", pat, other]
        elif k == "bind":
            free = [v for v in gs.VARS if v not in ref.in_scope(pat)]
            scope = sorted(ref.in_scope(pat))
            if free and scope:
                pat = ["bind", pat, draw(st.one_of(st.sampled_from(scope).map(lambda v: ["var", v]), gs.exprs(1, exists=False))), free[0]]
        elif k == "join-union":
            pat = ["join", pat, ["union", other, draw(gs.bgp(pool=data))]]
        elif k == "join-sub":
            pat = ["join", pat, ["sub", None, draw(st.booleans()), other, None, None, None]]
        elif k == "sub-join":
            # a sub-select to the left of the rest, projecting some of its variables
            sc = sorted(ref.in_scope(other))
            vs = draw(st.lists(st.sampled_from(sc), min_size=1, max_size=2, unique=True)) if sc and draw(st.booleans()) else None
            pat = ["join", ["sub", vs, draw(st.booleans()), other, None, None, None], pat]
        elif k == "union-join":
            pat = ["join", ["union", other, draw(gs.bgp(pool=data))], pat]
        elif k == "group-join":
            pat = ["join", ["filter", draw(gs.exprs(1, exists=False)), other], pat]
        else:
            pat = ["join", pat, other]
    scope = sorted(ref.in_scope(outer))
    var = draw(st.sampled_from(scope)) if scope else "a"
    vals = [x for t in data for x in t if x[0] != "b"] + gs.LITS[:3] + gs.NODES[:3]
    return {"data": data, "outer": outer, "pattern": pat, "var": var, "value": draw(st.sampled_from(vals))}


# ---------------------------------------------------------------- query texts for the prepared / stores legs
@st.composite
def query_texts(draw, data):
    """(text, compare) - compare: 'rows' | 'count' (LIMIT/OFFSET) ; columns never compared listed in the third element"""
    kind = draw(st.sampled_from(["pattern", "pattern", "modifiers", "aggregates", "path", "scoped"]))
    pool = data
    if kind == "scoped":
        # a nested group whose FILTER / BIND mentions a variable that is bound only outside it (the translated query keeps per-node
        # variable sets for this; they must not be changed by an evaluation)
        if draw(st.booleans()):
            A, B = draw(gs.bgp(pool=pool or None)), draw(gs.bgp(pool=pool or None))
            va = sorted(ref.in_scope(A)) or ["a"]
            v = draw(st.sampled_from(va))
        else:
            # ?a p ?b . { ?a q ?c FILTER(.. ?b ..) }: the filter's variable is not bound inside its group
            pr = st.one_of(st.sampled_from(gs.PREDS), st.just(["v", "d"]))
            A, B, v = ["bgp", [[["v", "a"], draw(pr), ["v", "b"]]]], ["bgp", [[["v", "a"], draw(pr), ["v", "c"]]]], "b"
        e = draw(st.one_of(st.just([">", ["var", v], ["const", gs.LITS[2]]]), st.just(["bound", v]), st.just(["isIRI", ["var", v]]),
                           st.just(["=", ["var", v], ["var", v]])))
        shape = draw(st.integers(0, 3))
        inner = ["filter", e, B]
        if shape == 1:
            free = [x for x in gs.VARS if x not in ref.in_scope(A) | ref.in_scope(B)]
            inner = ["bind", B, ["var", v], free[0]] if free else inner
        pat = ["join", A, inner] if shape != 2 else ["opt", A, inner, None]
        if shape == 3:
            pat = ["join", A, ["union", inner, B]]
        return {"text": f"SELECT * WHERE {gs.group_text(pat)}", "compare": "rows", "skipcols": [], "pattern": pat, "focus": v}
    if kind == "pattern":
        pat = draw(gs.patterns(draw(st.integers(0, 2)), dataset=False, pool=pool))
        return {"text": f"SELECT * WHERE {gs.group_text(pat)}", "compare": "rows", "skipcols": [], "pattern": pat}
    if kind == "modifiers":
        pat = draw(gs.patterns(draw(st.integers(0, 1)), dataset=False, pool=pool))
        scope = sorted(ref.in_scope(pat))
        order = None
        if scope and draw(st.booleans()):
            order = draw(st.lists(st.tuples(st.sampled_from(scope).map(lambda v: ["var", v]), st.booleans()).map(list), min_size=1, max_size=2))
        limit = draw(st.one_of(st.none(), st.none(), st.integers(0, 4)))
        node = ["sub", None, draw(st.booleans()), pat, order, limit, draw(st.one_of(st.none(), st.integers(0, 2)))]
        return {"text": gs.select_text(node), "compare": "count" if limit is not None or node[6] else "rows", "skipcols": [], "pattern": pat}
    if kind == "aggregates":
        pat = ["bgp", [[["v", "s"], draw(st.one_of(st.sampled_from(gs.PREDS), st.just(["v", "p"]))), ["v", "o"]]]]
        keys = draw(st.lists(st.sampled_from(["s", "o"]), max_size=1))
        aggs = []
        for i in range(draw(st.integers(1, 2))):
            agg = draw(st.sampled_from(["count*", "count", "sum", "avg", "min", "max"]))
            aggs.append(["n%d" % i, agg, None if agg == "count*" else ["var", draw(st.sampled_from(["s", "o"]))], draw(st.booleans()), None, None])
        cs = {"pattern": pat, "keys": keys, "aggs": aggs, "having": None, "order": None, "limit": None, "hide_keys": False}
        return {"text": c08.agg_query_text(cs), "compare": "rows", "skipcols": [a[0] for a in aggs if a[1] in ("min", "max")], "pattern": pat}
    path = draw(c11.path_strategy(3))
    p = c11.sparql_path(path).replace("urn:r", "urn:q")
    s = draw(st.one_of(st.just("?s"), st.just("?s"), st.sampled_from(gs.NODES[:3]).map(gs.term_text)))
    o = draw(st.one_of(st.just("?o"), st.just("?o"), st.sampled_from(gs.NODES[:3]).map(gs.term_text)))
    return {"text": f"SELECT * WHERE {{ {s} {p} {o} }}", "compare": "rows", "skipcols": [], "pattern": ["bgp", []], "path": True}


def by_value(rows, cols):
    """the columns named in cols (MIN / MAX results) by numeric value only: which of several terms of the least / greatest value is
    returned (1 or 1.0) is not determined, and differs with the order a store hands the solutions out in"""
    if not cols:
        return rows
    out = Counter()
    for row, n in rows.items():
        items = []
        for name, v in row:
            if name in cols and v[0] == "l" and v[2] in ref.NUMERIC:
                nv = c08.norm(v)
                v = ("value", nv[2] if isinstance(nv, tuple) and nv and nv[0] == "num" else v)
            items.append((name, v))
        out[frozenset(items)] += n
    return out


def same_answer(a, b, how, valuecols=()):
    if how == "count":
        return a[1] == b[1]
    return by_value(a[0], valuecols) == by_value(b[0], valuecols)


# ---------------------------------------------------------------- prepared queries
def run_prepared(case):
    out = Out()
    qt = case["query"]
    if not c04.valid(qt["pattern"]):
        return out
    # (no exclusion of C04's finding classes here: both sides evaluate the very same query text)
    graphs = [graph_of(d) for d in case["graphs"]]
    with warnings.catch_warnings():
        warnings.simplefilter("ignore")
        pq = sut(prepareQuery, qt["text"])
    if is_err(pq):
        out.cls("prepare-raises")
        return out
    steps = case["steps"]
    seen = set()
    for i, (gi, binding) in enumerate(steps):
        g = graphs[gi % len(graphs)]
        kw = {}
        if binding is not None and binding[1][0] != "b":
            kw = {"initBindings": {binding[0]: T(binding[1])}}
        fresh = sut(run_query, g, qt["text"], **kw)
        prep = sut(run_query, g, pq, **kw)
        seen.add((gi % len(graphs), json.dumps(binding)))
        where = f"{qt['text']}\n step {i} of {steps} on graph {case['graphs'][gi % len(graphs)]} bindings={binding}"
        if is_err(fresh) and is_err(prep):
            continue
        if is_err(fresh) or is_err(prep):
            e = fresh if is_err(fresh) else prep
            out.fail(("prepared-vs-fresh-one-raises", "prepared" if is_err(prep) else "fresh", e.kind, e.site), f"{where}: {e!r}")
            return out
        if not same_answer(fresh, prep, qt["compare"], qt.get("skipcols") or ()):
            out.fail(("prepared-differs-from-fresh", "first-evaluation" if i == 0 else "later-evaluation", "with-bindings" if kw else "no-bindings"),
                     f"{where}\n fresh-only={list((fresh[0] - prep[0]).items())[:3]}\n prepared-only={list((prep[0] - fresh[0]).items())[:3]}")
            return out
    if case.get("interleave") and len(steps) >= 2 and qt["compare"] == "rows":
        # two evaluations of the one prepared query under way at the same time: the first is read row by row (results are produced on
        # demand), the second is started and finished after the first row, then the first is read to its end
        def setting(step):
            gi, binding = step
            kw = {"initBindings": {binding[0]: T(binding[1])}} if binding is not None and binding[1][0] != "b" else {}
            return graphs[gi % len(graphs)], kw
        (g1, kw1), (g2, kw2) = setting(steps[0]), setting(steps[1])
        fresh = sut(run_query, g1, qt["text"], **kw1)
        with warnings.catch_warnings():
            warnings.simplefilter("ignore")
            pq = prepareQuery(qt["text"])  # one that has not been evaluated yet

        def interleaved():
            with warnings.catch_warnings():
                warnings.simplefilter("ignore")
                res = g1.query(pq, **kw1)
                it = iter(res)
                first = next(it, None)
                try:
                    list(g2.query(pq, **kw2))
                except Exception:  # noqa: BLE001  (what the second evaluation itself does is the other steps' subject)
                    pass
                rest = list(it)
                rows = ([first] if first is not None else []) + rest
                c = Counter()
                for row in rows:
                    c[frozenset((str(v), key(row[v])) for v in res.vars if row[v] is not None)] += 1
                return c
        got = sut(interleaved)
        if is_err(fresh) != is_err(got):
            e = fresh if is_err(fresh) else got
            out.fail(("interleaved-evaluations-one-raises", e.kind, e.site), f"{qt['text']} steps={steps[:2]}: {e!r}")
            return out
        if not is_err(fresh):
            want = Counter({k: n for k, n in by_value(fresh[0], qt.get("skipcols") or ()).items() if k})
            have = Counter({k: n for k, n in by_value(got, qt.get("skipcols") or ()).items() if k})
            if want != have:
                out.fail(("interleaved-evaluations-differ", "with-bindings" if (kw1 or kw2) else "no-bindings"),
                         f"{qt['text']}\n steps={steps[:2]} graphs={case['graphs']}\n fresh-only={list((want - have).items())[:3]}\n interleaved-only={list((have - want).items())[:3]}")
                return out
        out.cls("interleaved")
    out.nontrivial = len(seen) >= 2
    out.cls("steps:%d" % len(steps), "graphs:%d" % len(graphs), "path" if qt.get("path") else "no-path", "distinct-settings:%d" % len(seen))
    return out


@st.composite
def prepared_cases(draw, tier):
    if draw(st.integers(0, 5)) == 0:
        # a basic graph pattern of three or four triple patterns that form a chain, over data that has such chains, evaluated with and
        # without its last (or first) variable given: the engine orders the patterns by what is bound, differently for the two
        n = draw(st.integers(3, 4))
        preds = [draw(st.sampled_from(gs.PREDS)) for _ in range(n)]
        chains = draw(st.integers(2, 3))
        data, ends = [], []
        for c in range(chains):
            nodes = [["u", "urn:n%d_%d" % (c, i)] for i in range(n + 1)]
            if c and draw(st.booleans()):
                nodes[0] = ["u", "urn:n0_0"]  # chains that share their start
            ends.append((nodes[0], nodes[-1]))
            data += [[nodes[i], preds[i], nodes[i + 1]] for i in range(n)]
        vs = ["v%d" % i for i in range(n + 1)]
        tps = [[["v", vs[i]], preds[i], ["v", vs[i + 1]]] for i in range(n)]
        tps = [tps[i] for i in draw(st.permutations(range(n)))]
        pat = ["bgp", tps]
        qt = {"text": f"SELECT * WHERE {gs.group_text(pat)}", "compare": "rows", "skipcols": [], "pattern": pat}
        which = draw(st.integers(0, 1))
        given = [0, [vs[-1] if which else vs[0], draw(st.sampled_from(ends))[1 if which else 0]]]
        steps = [[0, None], given] if draw(st.booleans()) else [given, [0, None]]
        return {"graphs": [data], "query": qt, "steps": steps, "interleave": True}
    graphs = draw(st.lists(gs.data_triples(), min_size=1, max_size=3))
    pool = [t for d in graphs for t in d]
    qt = draw(query_texts(pool))
    vals = [x for t in pool for x in t if x[0] != "b"] + gs.LITS[:2]
    names = sorted(c04.all_vars(qt["pattern"]) | ref.in_scope(qt["pattern"])) or ["s", "o"]
    step = st.tuples(st.integers(0, 2), st.one_of(st.none(), st.none(), st.tuples(st.sampled_from(names), st.sampled_from(vals)).map(list))).map(list)
    steps = draw(st.lists(step, min_size=2, max_size=4))
    if qt.get("focus") and draw(st.booleans()):
        # first with the outside variable given, then without (and the other way round)
        gi = draw(st.integers(0, 2))
        pair = [[gi, [qt["focus"], draw(st.sampled_from(vals))]], [gi, None]]
        steps = (pair if draw(st.booleans()) else pair[::-1]) + steps[:2]
    return {"graphs": graphs, "query": qt, "steps": steps, "interleave": draw(st.booleans())}


# ---------------------------------------------------------------- store configurations
def run_stores(case):
    out = Out()
    qt = case["query"]
    if not c04.valid(qt["pattern"]):
        return out
    data = case["data"]
    targets = {"Memory": graph_of(data, "Memory"), "SimpleMemory": graph_of(data, "SimpleMemory"), "Auditable": graph_of(data, AuditableStore(Memory()))}
    parts = [[], [], []]
    for t, k in zip(data, case["partition"] + [0] * len(data)):
        parts[k % 3].append(t)
    used = [p for p in parts if p] or [[]]
    targets["Aggregate"] = ReadOnlyGraphAggregate([graph_of(p) for p in used])
    ds = Dataset()
    for t in data:
        ds.default_context.add(tuple(T(x) for x in t))
    if case["decoy"]:
        ds.graph(URIRef("urn:decoy")).add((URIRef("urn:zz"), URIRef("urn:p"), URIRef("urn:zz")))
    targets["DatasetDefault"] = ds.default_context
    answers = {}
    for name, tg in targets.items():
        answers[name] = sut(run_query, tg, qt["text"])
    base = answers["Memory"]
    where = f"{qt['text']}\n data={data} partition={[len(p) for p in used]}"
    for name, a in answers.items():
        if name == "Memory":
            continue
        if is_err(base) and is_err(a):
            continue
        if is_err(base) or is_err(a):
            e = base if is_err(base) else a
            out.fail(("store-one-raises", name if is_err(a) else "Memory", e.kind, e.site), f"{where}: {e!r}")
            return out
        if not same_answer(base, a, qt["compare"], qt.get("skipcols") or ()):
            out.fail(("store-answers-differ", name, "path" if qt.get("path") else "no-path"),
                     f"{where}\n Memory-only={list((base[0] - a[0]).items())[:3]}\n {name}-only={list((a[0] - base[0]).items())[:3]}")
            return out
    out.nontrivial = not is_err(base) and bool(base[0]) and len(used) >= 2
    out.cls("parts:%d" % len(used), "path" if qt.get("path") else "no-path", "rows:%d" % (0 if is_err(base) else min(sum(base[0].values()), 3)))
    # the same quads (the partition as default graph, <urn:g1>, <urn:g2>, and a graph <urn:empty> that holds nothing) behind the plain
    # and behind the auditable store, asked graph by graph
    gq = case.get("graph_query")
    if gq is not None:
        import warnings as _w
        answers = {}
        for name, mk in (("Memory", lambda: Memory()), ("Auditable", lambda: AuditableStore(Memory()))):
            with _w.catch_warnings():
                _w.simplefilter("ignore")
                cg = ConjunctiveGraph(store=mk())
                cg.default_union = bool(gq["union"])
                homes = [cg.default_context, cg.get_context(URIRef("urn:g1")), cg.get_context(URIRef("urn:g2"))]
                for t, k in zip(data, case["partition"] + [0] * len(data)):
                    homes[k % 3].add(tuple(T(x) for x in t))
                body = gs.inner_text(gq["bgp"])
                text = {"default": f"SELECT * WHERE {{ {body} }}", "var": f"SELECT * WHERE {{ GRAPH ?g {{ {body} }} }}"}.get(
                    gq["where"], f"SELECT * WHERE {{ GRAPH <{gq['where']}> {{ {body} }} }}")
                answers[name] = sut(run_query, cg, text)
        a, b = answers["Memory"], answers["Auditable"]
        if is_err(a) != is_err(b):
            e = a if is_err(a) else b
            out.fail(("store-one-raises", "Auditable-cg" if is_err(b) else "Memory-cg", e.kind, e.site), f"{text}: {e!r}")
            return out
        if not is_err(a) and a[0] != b[0]:
            out.fail(("store-answers-differ", "Auditable-cg", gq["where"] if gq["where"] in ("default", "var") else "graph", "union" if gq["union"] else "no-union"),
                     f"{text}\n data={data} partition={case['partition']}\n Memory-only={list((a[0] - b[0]).items())[:3]}\n Auditable-only={list((b[0] - a[0]).items())[:3]}")
            return out
        out.cls("graph-query:" + (gq["where"] if gq["where"] in ("default", "var") else "named"))
    return out


@st.composite
def store_cases(draw, tier):
    data = draw(gs.data_triples())
    gq = {"bgp": draw(gs.bgp(pool=data) if data else gs.bgp()), "union": draw(st.booleans()),
          "where": draw(st.sampled_from(["default", "var", "urn:g1", "urn:g2", "urn:empty", "urn:unknown"]))}
    return {"data": data, "query": draw(query_texts(data)), "partition": draw(st.lists(st.integers(0, 2), min_size=len(data), max_size=len(data))),
            "decoy": draw(st.booleans()), "graph_query": gq}


SUBCHECKS = [Sub("rewrites", lambda tier: rewrite_cases(tier), run_rewrite, {"quick": 5000, "thorough": 150000}, weight=2),
             Sub("initbindings", lambda tier: initbinding_cases(tier), run_initbindings, {"quick": 4000, "thorough": 100000}),
             Sub("prepared", lambda tier: prepared_cases(tier), run_prepared, {"quick": 2500, "thorough": 60000}),
             Sub("stores", lambda tier: store_cases(tier), run_stores, {"quick": 3000, "thorough": 60000})]
