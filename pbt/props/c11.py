"""C11 — Property paths denote the relation SPARQL defines, for every binding of the ends.

Generated path expression x graph x (start, end) binding, evaluated through the Python API (Graph.triples/subjects/objects/
subject_objects/__contains__ with rdflib.paths objects) and through SPARQL text, compared with a set-algebra reference
(pbt/oracle/pathref.py). Also: no duplicates from closure paths, termination (bounded number of graph reads)."""
from __future__ import annotations

from hypothesis import strategies as st

from rdflib import BNode, Dataset, Graph, Literal, URIRef, Variable
from rdflib.graph import ReadOnlyGraphAggregate
from rdflib.paths import AlternativePath, InvPath, MulPath, NegatedPath, SequencePath

from pbt.codec import T, key, tkey
from pbt.core import HarnessStepLimit, K, Out, Sub, counting_graph_class, is_err, sut
from pbt.gen import terms as gt
from pbt.oracle import pathref

RULE = ("path ASTs of depth <=3 (quick) / <=5 (thorough) over 3 predicates with ^ / | * + ? and negated sets (forward, inverse, mixed); graphs of "
        "0-8 triples over 4 nodes + falsy literals with cycles and self-loops; each end drawn from {unbound, node, absent IRI, falsy literal}; "
        "both routes (Python API, SPARQL text); the triples as one graph, as a Dataset with default_union over three graphs or as a "
        "ReadOnlyGraphAggregate over two; in a third of the cases the same path object and prepared query again after a triple was removed "
        "/ added. Non-trivial = path has a closure or negated set AND (graph has a cycle or an end is a falsy or "
        "absent term); distinct by SHA-1 of the case JSON.")
ASSUMPTIONS = ["results compared as sets; duplicate-freedom asserted only where the outermost operator is * + or ?",
               "nested zero-length steps at a bound term that does not occur in the graph: both readings accepted (lower/upper reference)",
               "non-termination = more than 40000 Graph.triples() calls on a graph of <= 8 triples"]

P = [URIRef("urn:p"), URIRef("urn:q"), URIRef("urn:r")]
NODES = [["u", "urn:a"], ["u", "urn:b"], ["b", "c"], ["u", "urn:d"], ["l", "0", None, gt.XSD + "integer"], ["l", "", None, None],
         ["l", "false", None, gt.XSD + "boolean"]]
ABSENT = ["u", "urn:absent"]
CG = counting_graph_class(Graph)
CDS = counting_graph_class(Dataset)
CAGG = counting_graph_class(ReadOnlyGraphAggregate)
VS, VO = Variable("s"), Variable("o")
LIMIT = 40000


def build(path):
    k = path[0]
    if k == "p":
        return P[path[1] % len(P)]
    if k == "inv":
        return ~build(path[1]) if path[1][0] != "p" else InvPath(build(path[1]))
    if k == "seq":
        r = build(path[1])
        for x in path[2:]:
            r = r / build(x)
        return r
    if k == "alt":
        r = build(path[1])
        for x in path[2:]:
            r = r | build(x)
        return r
    if k == "star":
        return build(path[1]) * "*"
    if k == "plus":
        return MulPath(build(path[1]), "+")
    if k == "opt":
        return MulPath(build(path[1]), "?")
    if k == "neg":
        members = [P[i % len(P)] if d == 0 else InvPath(P[i % len(P)]) for d, i in path[1]]
        if len(members) == 1:
            return -members[0]
        return NegatedPath(AlternativePath(*members))
    raise ValueError(path)


def sparql_path(path):
    k = path[0]
    if k == "p":
        return f"<{P[path[1] % len(P)]}>"
    if k == "inv":
        return "^(" + sparql_path(path[1]) + ")"
    if k == "seq":
        return "(" + "/".join(sparql_path(x) for x in path[1:]) + ")"
    if k == "alt":
        return "(" + "|".join(sparql_path(x) for x in path[1:]) + ")"
    if k in ("star", "plus", "opt"):
        return "(" + sparql_path(path[1]) + ")" + {"star": "*", "plus": "+", "opt": "?"}[k]
    if k == "neg":
        ms = [("^" if d else "") + f"<{P[i % len(P)]}>" for d, i in path[1]]
        return "!(" + "|".join(ms) + ")"
    raise ValueError(path)


def end_term(j):
    return None if j is None else T(j)


def has_cycle(triples):
    succ = {}
    for s, p, o in triples:
        succ.setdefault(s, set()).add(o)
    color = {}

    def dfs(n):
        color[n] = 1
        for m in succ.get(n, ()):
            if color.get(m) == 1 or (m not in color and dfs(m)):
                return True
        color[n] = 2
        return False
    return any(n not in color and dfs(n) for n in list(succ))


def neg_inverse(path):
    if path[0] == "neg":
        return any(d == 1 for d, i in path[1])
    if path[0] == "p":
        return False
    return any(neg_inverse(x) for x in path[1:])


def run(case):
    out = Out()
    path = case["path"]
    # the triples as one graph, or seen through a view that is the union of several graphs: a Dataset whose default graph is the
    # union of its graphs (triples spread over the default graph and two named ones), a ReadOnlyGraphAggregate over two graphs
    view = case.get("view", 0)
    if view == 1:
        g = CDS(default_union=True)
        parts = [g.default_context, g.graph(URIRef("urn:g1")), g.graph(URIRef("urn:g2"))]
    elif view == 2:
        parts = [Graph(), Graph()]
        g = CAGG(parts)
    else:
        g = CG()
        parts = [g]
    tset = set()
    for n, (s, p, o) in enumerate(case["triples"]):
        t = (T(NODES[s % len(NODES)]), P[p % len(P)], T(NODES[o % len(NODES)]))
        parts[n % len(parts)].add(t)
        tset.add(tkey(t))
    s, o = end_term(case["s"]), end_term(case["o"])
    sk, ok = (None if s is None else key(s)), (None if o is None else key(o))
    pk = [key(x) for x in P]
    nodes = {t[0] for t in tset} | {t[2] for t in tset}
    ends = {k for k in (sk, ok) if k is not None}
    top_zero = path[0] in ("star", "opt")
    # lower reference: identity only on graph nodes, plus (top-level zero-length step) on the bound ends
    lo = pathref.evaluate(path, tset, pk, nodes)
    if top_zero:
        lo |= {(e, e) for e in ends}
    hi = pathref.evaluate(path, tset, pk, nodes | ends)
    lo, hi = pathref.restrict(lo, sk, ok), pathref.restrict(hi, sk, ok)
    falsy_end = any(e is not None and not e for e in (s, o))
    absent_end = any(k is not None and k not in nodes for k in (sk, ok))
    closure = pathref.has_closure(path)
    out.nontrivial = (closure or pathref.has_neg(path)) and (has_cycle(tset) or falsy_end or absent_end)
    shape = ("b" if s is not None else "u") + ("b" if o is not None else "u")
    feats = "closure" if closure else ("neg" if pathref.has_neg(path) else "plain")
    if K.skip("C11-negated-inverse", neg_inverse(path), out):
        out.nontrivial = False
        return out
    rp = build(path)

    def judge(route, pairs, dupcheck):
        if is_err(pairs):
            if isinstance(pairs.exc, HarnessStepLimit):
                out.fail((route, "nonterminating", feats), f"{case}: exceeded {LIMIT} graph reads")
            else:
                out.fail((route, "raises", pairs.kind, pairs.site), f"{case}: {pairs!r}")
            return False
        got = set(pairs)
        if not lo <= got:
            out.fail((route, "missing", shape, feats, "falsy-end" if falsy_end else ("absent-end" if absent_end else "plain-ends")),
                     f"{case}: missing {sorted(lo - got, key=repr)}; got {sorted(got, key=repr)}")
            return False
        if not got <= hi:
            out.fail((route, "extra", shape, feats, "falsy-end" if falsy_end else ("absent-end" if absent_end else "plain-ends")),
                     f"{case}: extra {sorted(got - hi, key=repr)}; expected {sorted(hi, key=repr)}")
            return False
        if dupcheck and len(pairs) != len(got):
            out.fail((route, "duplicates", shape, path[0]), f"{case}: {sorted(pairs, key=repr)}")
            return False
        out.sub_evals += 1
        return True

    dup = path[0] in ("star", "plus", "opt")
    g.arm(LIMIT)
    try:
        r = sut(lambda: [(key(a), key(b)) for a, _, b in g.triples((s, rp, o))])
        if not judge("api-triples", r, dup):
            return out
        if s is None and o is None:
            r = sut(lambda: [(key(a), key(b)) for a, b in g.subject_objects(rp)])
            if not judge("api-subject_objects", r, dup):
                return out
        if s is not None and o is None:
            r = sut(lambda: [(sk, key(b)) for b in g.objects(s, rp)])
            if not judge("api-objects", r, dup):
                return out
        if o is not None and s is None:
            r = sut(lambda: [(key(a), ok) for a in g.subjects(rp, o)])
            if not judge("api-subjects", r, dup):
                return out
        if s is not None and o is not None:
            r = sut(lambda: (s, rp, o) in g)
            if is_err(r):
                judge("api-contains", r, False)
                return out
            if r != bool(lo) and r != bool(hi):
                out.fail(("api-contains", "wrong", feats), f"{case}: {(s, rp, o)} in g = {r}, expected {bool(lo)}")
                return out
        # SPARQL route
        sv = "?s" if s is None else s.n3()
        ov = "?o" if o is None else o.n3()
        if not isinstance(s, BNode) and not isinstance(o, BNode):  # a blank node in query text is a variable, not a constant
            q = f"SELECT ?s ?o WHERE {{ {sv} {sparql_path(path)} {ov} }}"

            def ask():
                res = g.query(q)
                return [(sk if s is not None else key(b[VS]), ok if o is not None else key(b[VO])) for b in res.bindings]
            r = sut(ask)
            if not judge("sparql", r, dup):
                return out
        mut = case.get("mutate")
        if mut is not None and len(mut) == 4:
            # the SAME path object and the SAME prepared query once more after the graph has changed: what they answered before
            # must not stick to them (both ends unbound, where a closure is enumerated from every node)
            from rdflib.plugins.sparql import prepareQuery
            pq = sut(prepareQuery, f"SELECT ?s ?o WHERE {{ ?s {sparql_path(path)} ?o }}")
            r0 = sut(lambda: list(g.triples((None, rp, None))))
            q0 = sut(lambda: list(g.query(pq))) if not is_err(pq) else None
            if case["triples"] and mut[0]:
                s0, p0, o0 = case["triples"][0]
                t0 = (T(NODES[s0 % len(NODES)]), P[p0 % len(P)], T(NODES[o0 % len(NODES)]))
                for part in parts:
                    part.remove(t0)  # (wherever the generated list put copies of it)
                tset.discard(tkey(t0))
            t1 = (T(NODES[mut[1] % len(NODES)]), P[mut[2] % len(P)], T(NODES[mut[3] % len(NODES)]))
            parts[-1].add(t1)
            tset.add(tkey(t1))
            nodes = {t[0] for t in tset} | {t[2] for t in tset}
            s = o = sk = ok = None
            shape = "uu"
            falsy_end = absent_end = False
            lo = pathref.evaluate(path, tset, pk, nodes)
            hi = lo
            r = sut(lambda: [(key(a), key(b)) for a, _, b in g.triples((None, rp, None))])
            if not judge("api-triples-after-change", r, dup):
                return out
            if not is_err(pq):
                r = sut(lambda: [(key(b[VS]), key(b[VO])) for b in g.query(pq).bindings])
                if not judge("sparql-prepared-after-change", r, dup):
                    return out
            out.cls("re-evaluated-after-change")
    finally:
        g.disarm()
    out.cls("shape:" + shape, "feat:" + feats, "top:" + path[0], "falsy-end" if falsy_end else "no-falsy-end")
    return out


def path_strategy(depth):
    leaf = st.one_of(
        st.tuples(st.just("p"), st.integers(0, 2)).map(list),
        st.tuples(st.just("p"), st.integers(0, 2)).map(list),
        st.tuples(st.just("neg"), st.lists(st.tuples(st.integers(0, 1), st.integers(0, 2)).map(list), min_size=1, max_size=3)).map(list),
    )

    def extend(inner):
        return st.one_of(
            st.tuples(st.just("inv"), inner).map(list),
            st.tuples(st.just("seq"), inner, inner).map(list),
            st.tuples(st.just("seq"), inner, inner, inner).map(list),
            st.tuples(st.just("alt"), inner, inner).map(list),
            st.tuples(st.just("star"), inner).map(list),
            st.tuples(st.just("plus"), inner).map(list),
            st.tuples(st.just("opt"), inner).map(list),
        )
    s = leaf
    for _ in range(depth - 1):
        s = st.one_of(leaf, extend(s), extend(s))
    return s


def strategy(tier):
    big = tier == "thorough"
    end = st.one_of(st.none(), st.none(), st.sampled_from(NODES[:4]), st.sampled_from(NODES[4:]), st.just(ABSENT), st.sampled_from(NODES))
    tri = st.tuples(st.integers(0, 6), st.integers(0, 2), st.integers(0, 6)).map(list)
    return st.fixed_dictionaries({
        "path": path_strategy(5 if big else 3).filter(lambda p: pathref.depth(p) <= (5 if big else 3)),
        "triples": st.lists(tri, max_size=8),
        "s": end, "o": end,
        "view": st.sampled_from([0, 0, 0, 1, 2]),
        "mutate": st.one_of(st.none(), st.none(), st.tuples(st.booleans(), st.integers(0, 6), st.integers(0, 2), st.integers(0, 6)).map(list)),
    })


SUBCHECKS = [Sub("paths", strategy, run, {"quick": 16000, "thorough": 400000})]
