"""C16 — SPARQL results survive their exchange formats.

Generated result tables (1-4 variables, 0-6 rows, any pattern of unbound cells, IRIs, blank nodes, plain/typed/language literals
over a nasty alphabet) and both boolean results:
  json / xml : Result.parse(serialize(F), F) keeps vars (order), row sequence and every cell; the bytes are also read by an independent
               stdlib reader (json / ElementTree) following the W3C result formats
  tsv        : a W3C-conformant TSV rendering written by the harness is read back by rdflib's TSV parser to exactly the terms
  csv        : rdflib's CSV output read by Python's csv module has the header and, per row, the string value of every bound term;
               rdflib's own CSV reader returns the same number of rows with the same strings"""
from __future__ import annotations

import csv
import io
import json
import xml.etree.ElementTree as ET

from hypothesis import strategies as st

from rdflib import BNode, Literal, URIRef, Variable
from rdflib.query import Result

from pbt.codec import T, key
from pbt.core import K, Out, Sub, is_err, sut
from pbt.gen import terms as gt

RULE = ("tables with 1-4 variables and 0-6 rows; cells: unbound (incl. all-unbound rows, fully unbound columns), IRIs, blank nodes, plain / "
        "xsd:string / language / typed literals over an alphabet with quotes, TAB, CR, LF, U+0085, U+2028, non-BMP, leading/trailing spaces, "
        "empty string, falsy literals; ASK true/false. Non-trivial = the table has an unbound cell and a literal needing an escape in that "
        "format (quote, backslash, TAB, CR, LF, comma, control or non-ASCII); distinct by SHA-1 of the case JSON.")
ASSUMPTIONS = ["XML leg: strings restricted to XML 1.0 Char (the format cannot state others)",
               "TSV: a 1-column all-unbound row is an empty line (ambiguous in the format) and is not asserted",
               "blank node labels are compared up to a per-table bijection"]

SRJ = "http://www.w3.org/2005/sparql-results#"
XSD_STRING = gt.XSD + "string"


def build(case):
    vs = [Variable(n) for n in case["vars"]]
    r = Result("SELECT")
    r.vars = vs
    rows = []
    for row in case["rows"]:
        d = {}
        for v, c in zip(vs, row):
            if c is not None:
                d[v] = T(c)
        rows.append(d)
    lazy = case.get("lazy", 0)
    if not lazy:
        r.bindings = rows
    else:
        # the way a query hands its solutions over: a generator, read on demand. 2: the caller went through the rows before
        # serialising, 3: ... and stopped after the first (the result is the same table whatever was looked at before)
        r.bindings = (d for d in rows)
        if lazy == 2:
            list(r)
        elif lazy == 3:
            for _ in r:
                break
    return r, vs


def expected_rows(case):
    n = len(case["vars"])
    return [[None if c is None else key(T(c)) for c in (row + [None] * n)[:n]] for row in case["rows"]]


def rows_of(res, vs):
    return [[None if b.get(v) is None else key(b[v]) for v in vs] for b in res.bindings]


def equal_upto_bnodes(exp, got):
    if len(exp) != len(got):
        return False
    m, inv = {}, {}
    for re_, rg in zip(exp, got):
        if len(re_) != len(rg):
            return False
        for a, b in zip(re_, rg):
            if a is None or b is None:
                if a is not b:
                    return False
                continue
            if a[0] == "b" and b[0] == "b":
                if m.setdefault(a, b) != b or inv.setdefault(b, a) != a:
                    return False
            elif a != b:
                return False
    return True


def needs_escape(case):
    for row in case["rows"]:
        for c in row:
            if c is not None and c[0] == "l" and any(ch in '"\\\t\r\n,' or ord(ch) < 32 or ord(ch) > 126 for ch in c[1]):
                return True
    return False


def has_unbound(case):
    return any(c is None for row in case["rows"] for c in row)


def xml_expressible(case):
    return all(c is None or gt.xml_ok(c[1]) for row in case["rows"] for c in row)


# ---------------------------------------------------------------- independent readers
def read_json_doc(data):
    d = json.loads(data)
    if "boolean" in d:
        return None, d["boolean"]
    vs = d["head"]["vars"]
    rows = []
    for b in d["results"]["bindings"]:
        row = []
        for v in vs:
            c = b.get(v)
            if c is None:
                row.append(None)
            elif c["type"] == "uri":
                row.append(("u", c["value"]))
            elif c["type"] == "bnode":
                row.append(("b", c["value"]))
            elif c["type"] in ("literal", "typed-literal"):
                row.append(("l", c["value"], c.get("datatype"), (c.get("xml:lang") or None) and c["xml:lang"].lower()))
            else:
                raise ValueError(c)
        extra = set(b) - set(vs)
        if extra:
            raise ValueError(f"binding for undeclared variable {extra}")
        rows.append(row)
    return vs, rows


def read_xml_doc(data):
    root = ET.fromstring(data)
    if root.tag != "{%s}sparql" % SRJ:
        raise ValueError(root.tag)
    boolean = root.find("{%s}boolean" % SRJ)
    if boolean is not None:
        return None, boolean.text.strip() == "true"
    vs = [v.get("name") for v in root.find("{%s}head" % SRJ).findall("{%s}variable" % SRJ)]
    rows = []
    for res in root.find("{%s}results" % SRJ).findall("{%s}result" % SRJ):
        cells = {}
        for b in res.findall("{%s}binding" % SRJ):
            ch = list(b)[0]
            tag = ch.tag.split("}")[1]
            if tag == "uri":
                cells[b.get("name")] = ("u", ch.text or "")
            elif tag == "bnode":
                cells[b.get("name")] = ("b", ch.text or "")
            elif tag == "literal":
                lang = ch.get("{http://www.w3.org/XML/1998/namespace}lang")
                cells[b.get("name")] = ("l", ch.text or "", ch.get("datatype"), lang.lower() if lang else None)
            else:
                raise ValueError(tag)
        rows.append([cells.get(v) for v in vs])
    return vs, rows


# ---------------------------------------------------------------- W3C TSV writer (harness side)
def uescape(s, style):
    """style 2: characters outside ASCII (and a few inside) as \\uXXXX / \\UXXXXXXXX, as Turtle and SPARQL allow in strings and IRIs"""
    if style != 2:
        return s
    return "".join(c if (" " <= c < "\x7f" and c not in "aeZ9") else ("\\u%04X" % ord(c) if ord(c) < 0x10000 else "\\U%08X" % ord(c)) for c in s)


def tsv_term(c, style):
    k = c[0]
    if k == "u":
        return "<" + uescape(c[1], style) + ">"
    if k == "b":
        return "_:" + c[1]
    lex, lang, dt = c[1], (c[2] if len(c) > 2 else None), (c[3] if len(c) > 3 else None)
    if style and dt in (gt.XSD + "integer", gt.XSD + "decimal", gt.XSD + "double", gt.XSD + "boolean") and lang is None:
        import re
        pats = {"integer": r"[+-]?[0-9]+\Z", "decimal": r"[+-]?[0-9]*\.[0-9]+\Z", "double": r"[+-]?([0-9]+\.[0-9]*[eE][+-]?[0-9]+|\.[0-9]+[eE][+-]?[0-9]+|[0-9]+[eE][+-]?[0-9]+)\Z",
                "boolean": r"(true|false)\Z"}
        if re.match(pats[dt.split("#")[1]], lex):
            return lex
    esc = "".join({"\\": "\\\\", "\t": "\\t", "\n": "\\n", "\r": "\\r", '"': '\\"'}.get(ch) or uescape(ch, style) for ch in lex)
    s = '"' + esc + '"'
    if lang:
        return s + "@" + lang
    if dt:
        return s + "^^<" + dt + ">"
    return s


def write_tsv(case):
    lines = ["\t".join("?" + v for v in case["vars"])]
    n = len(case["vars"])
    for row in case["rows"]:
        row = (row + [None] * n)[:n]
        lines.append("\t".join("" if c is None else tsv_term(c, case.get("shorthand", 0)) for c in row))
    return "\n".join(lines) + "\n"


# ---------------------------------------------------------------- runs
def run_jsonxml(case):
    out = Out()
    fmt = case["fmt"]
    if case.get("ask") is not None:
        r = Result("ASK")
        r.askAnswer = bool(case["ask"])
        data = sut(r.serialize, format=fmt)
        if is_err(data):
            out.fail((fmt, "ask-serialize-raises", data.kind), repr(data))
            return out
        try:
            _, b = (read_json_doc if fmt == "json" else read_xml_doc)(data)
        except Exception as e:  # noqa: BLE001
            out.fail((fmt, "ask-output-not-readable-by-independent-reader"), f"{data!r}: {e!r}")
            return out
        back = sut(Result.parse, io.BytesIO(data), format=fmt)
        if b != bool(case["ask"]) or is_err(back) or back.type != "ASK" or back.askAnswer != bool(case["ask"]):
            out.fail((fmt, "ask-roundtrip"), f"{case}: independent={b} rdflib={back!r}")
        out.nontrivial = True
        return out
    if fmt == "xml" and not xml_expressible(case):
        out.cls("xml-inexpressible")
        return out
    r, vs = build(case)
    exp = expected_rows(case)
    out.nontrivial = has_unbound(case) and needs_escape(case)
    falsy = any(c is not None and c[0] == "l" and not T(c) for row in case["rows"] for c in row)
    data = sut(r.serialize, format=fmt)
    if is_err(data):
        out.fail((fmt, "serialize-raises", data.kind, data.site), f"{case}: {data!r}")
        return out
    # independent reader
    try:
        ivs, irows = (read_json_doc if fmt == "json" else read_xml_doc)(data)
    except Exception as e:  # noqa: BLE001
        out.fail((fmt, "output-not-readable-by-independent-reader", type(e).__name__), f"{case}: {data[:300]!r}: {e!r}")
        return out
    if ivs != case["vars"]:
        out.fail((fmt, "independent-reader-vars"), f"{ivs} vs {case['vars']}")
        return out
    cr = any(c is not None and c[0] == "l" and "\r" in c[1] for row in case["rows"] for c in row)
    if not equal_upto_bnodes(exp, [[None if c is None else tuple(c) for c in row] for row in irows]):
        out.fail((fmt, "independent-reader-rows", "falsy-literal" if falsy else ("cr" if cr else "other")), f"{case}: read {irows}")
        return out
    back = sut(Result.parse, io.BytesIO(data), format=fmt)
    if is_err(back):
        out.fail((fmt, "parse-raises", back.kind, back.site), f"{case}: {back!r}")
        return out
    if [str(v) for v in back.vars] != case["vars"]:
        out.fail((fmt, "vars-differ"), f"{back.vars} vs {case['vars']}")
        return out
    got = rows_of(back, [Variable(n) for n in case["vars"]])
    if not equal_upto_bnodes(exp, got):
        kind = "row-count" if len(got) != len(exp) else ("falsy-literal" if falsy else ("cr" if cr else "cell"))
        out.fail((fmt, "roundtrip-rows-differ", kind), f"{case}: got {got}")
        return out
    out.cls("fmt:" + fmt)
    out.sub_evals = 2
    return out


def raw_rows(case):
    n = len(case["vars"])
    return [[None if c is None else ((c[0], c[1]) if c[0] != "l" else ("l", c[1], c[3] if len(c) > 3 else None, (c[2].lower() if len(c) > 2 and c[2] else None)))
             for c in (row + [None] * n)[:n]] for row in case["rows"]]


def numeric_same(a, b):
    """both typed numeric literals of one datatype denoting the same number (shorthand like -0.0 vs 0.0)"""
    if a is None or b is None or a[0] != "l" or b[0] != "l" or a[2] != b[2] or a[2] not in (gt.XSD + "integer", gt.XSD + "decimal", gt.XSD + "double"):
        return False
    try:
        from decimal import Decimal
        return Decimal(a[1]) == Decimal(b[1])
    except Exception:  # noqa: BLE001
        return False


def run_tsv(case):
    out = Out()
    n = len(case["vars"])
    if n == 0:
        return out
    doc = write_tsv(case)
    exp = expected_rows(case)
    if n == 1:
        exp = [r for r in exp if r[0] is not None]  # an empty line is ambiguous
    out.nontrivial = has_unbound(case) and needs_escape(case)
    back = sut(Result.parse, io.BytesIO(doc.encode("utf-8")), format="tsv")
    if is_err(back):
        out.fail(("tsv", "parse-raises", back.kind, back.site), f"{doc!r}: {back!r}")
        return out
    if [str(v) for v in back.vars] != case["vars"]:
        out.fail(("tsv", "vars-differ"), f"{back.vars}")
        return out
    got = rows_of(back, [Variable(v) for v in case["vars"]])
    # shorthand numerics are read as typed literals of the written lexical form
    raw = raw_rows(case)
    if n == 1:
        raw = [r for r in raw if r[0] is not None]
    if len(got) == len(exp):
        # a literal may come back as written or in its normal form (parsing normalises by design)
        merged = [[g if (g == r or numeric_same(g, r) or numeric_same(g, e)) else e for e, r, g in zip(er, rr, gr)] for er, rr, gr in zip(exp, raw, got)]
    else:
        merged = exp
    if not equal_upto_bnodes(merged, got):
        kind = "row-count" if len(got) != len(exp) else "cell"
        out.fail(("tsv", "rows-differ", kind), f"{doc!r}: expected {exp} got {got}")
        return out
    return out


def run_csv(case):
    out = Out()
    r, vs = build(case)
    n = len(vs)
    out.nontrivial = has_unbound(case) and needs_escape(case)
    data = sut(r.serialize, format="csv")
    if is_err(data):
        out.fail(("csv", "serialize-raises", data.kind, data.site), f"{case}: {data!r}")
        return out
    try:
        rows = list(csv.reader(io.StringIO(data.decode("utf-8"), newline="")))
    except Exception as e:  # noqa: BLE001
        out.fail(("csv", "output-not-readable-by-csv-module"), f"{data!r}: {e!r}")
        return out
    want = [case["vars"]] + [["" if c is None else ("_:" + c[1] if c[0] == "b" else str(T(c))) for c in (row + [None] * n)[:n]] for row in case["rows"]]
    if rows != want:
        out.fail(("csv", "stdlib-reader-rows-differ", "row-count" if len(rows) != len(want) else "cell"), f"{case}: csv module read {rows}, expected {want}")
        return out
    back = sut(Result.parse, io.BytesIO(data), format="csv")
    if is_err(back):
        out.fail(("csv", "parse-raises", back.kind, back.site), f"{case}: {back!r}")
        return out
    got = [["" if b.get(v) is None else (("_:" if isinstance(b[v], BNode) and not str(b[v]).startswith("_:") else "") + str(b[v])) for v in vs] for b in back.bindings]
    if [str(v) for v in back.vars] != case["vars"] or got != want[1:]:
        out.fail(("csv", "rdflib-reader-differs", "row-count" if len(got) != len(want) - 1 else "cell"), f"{case}: rdflib read {got}, expected {want[1:]}")
        return out
    return out


# ---------------------------------------------------------------- strategies
def cell(xml_safe):
    return st.one_of(
        st.none(), st.none(),
        gt.iris(), gt.bnodes(),
        gt.plain_literals(xml_safe=xml_safe), gt.lang_literals(xml_safe=xml_safe), gt.xsd_string_literals(xml_safe=xml_safe),
        gt.typed_canon(), gt.unknown_typed(xml_safe=xml_safe), gt.falsy_literals(),
        st.sampled_from([["l", " lead", None, None], ["l", "trail ", None, None], ["l", "a,b", None, None], ["l", "a\tb", None, None],
                         ["l", "line1\nline2", None, None], ["l", "cr\rlf", None, None], ["l", "crlf\r\n", None, None], ["l", "q\"uote", None, None]]),
        # terms of different kinds with one and the same text (an IRI, a plain literal saying that IRI, a blank node label and a literal
        # saying it, the same text with and without a language or datatype)
        st.sampled_from([["u", "http://ex.org/same"], ["l", "http://ex.org/same", None, None], ["l", "http://ex.org/same", "en", None],
                         ["l", "http://ex.org/same", None, gt.XSD + "anyURI"], ["b", "same"], ["l", "same", None, None], ["u", "urn:same"]]),
    )


def table(xml_safe, tsv=False):
    names = st.lists(st.sampled_from(["a", "b", "x", "y1", "s", "o", "p_q"]), min_size=1, max_size=4, unique=True)
    return names.flatmap(lambda vs: st.fixed_dictionaries({
        "vars": st.just(vs),
        "rows": st.lists(st.lists(cell(xml_safe), min_size=len(vs), max_size=len(vs)), max_size=6),
        "shorthand": st.integers(0, 2) if tsv else st.just(0),
        "lazy": st.just(0) if tsv else st.sampled_from([0, 0, 1, 2, 3]),
    }))


def strat_jsonxml(tier):
    def add(fmt):
        return st.one_of(table(fmt == "xml"), table(fmt == "xml"), table(fmt == "xml"), st.fixed_dictionaries({"ask": st.booleans()})).map(lambda c: dict(c, fmt=fmt))
    return st.one_of(add("json"), add("xml"))


SUBCHECKS = [
    Sub("jsonxml", strat_jsonxml, run_jsonxml, {"quick": 12000, "thorough": 300000}, weight=8),
    Sub("tsv", lambda tier: table(False, tsv=True), run_tsv, {"quick": 4000, "thorough": 100000}, weight=4),
    Sub("csv", lambda tier: table(False), run_csv, {"quick": 6000, "thorough": 150000}, weight=4),
]
