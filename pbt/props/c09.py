"""C09 — Literal <-> Python value mapping is faithful and normalisation is idempotent.

  pyvalue : Python value -> Literal: documented datatype, lexical form valid for it (independent XSD grammar), toPython() == value,
            re-parsing the lexical form gives an equal term, eq() with the value
  lexical : grammar-generated valid lexical forms of every recognised datatype (with boundary classes): not ill-typed, value equals
            the reference value, normalised form is valid and denotes the same value, normalisation idempotent
  eq      : pairs of literals of one family: == implies eq(); eq() agrees with equality of reference values"""
from __future__ import annotations

import math
from datetime import date, datetime, time, timedelta, timezone
from decimal import Decimal

from hypothesis import strategies as st

from rdflib import Literal, URIRef
from rdflib.xsd_datetime import Duration

from pbt.core import K, Out, Sub, is_err, sut
from pbt.oracle import xsd

RULE = ("pyvalue: ints of any size, all floats incl. -0.0/subnormal/inf/nan, Decimals of any exponent, bool, str, UTF-8 bytes, date/time/datetime "
        "over the full range with tz None/UTC/minute offsets within +-14:00, timedelta, sign-consistent Duration; lexical: valid forms from "
        "independent grammars for 33 datatypes incl. leading +/zeros, .5, 5., -0, INF/-INF/NaN, exponents, 24:00:00, Z/offsets, years <1000 / "
        ">9999 / negative, P0Y14M, -P1D, min/max of bounded integer types, hexBinary either case, base64 with spaces, whitespace padding. "
        "Non-trivial = the case is tagged with a boundary class or its form differs from its normal form; distinct by SHA-1 of the case JSON.")
ASSUMPTIONS = ["only 'valid => accepted with the right value' is asserted; invalid forms are not required to be rejected",
               "XSD 1.0 and 1.1 common forms only (no year 0000, <= 6 fractional second digits asserted, no leap second)",
               "bytes are the UTF-8 encoded lexical form; toPython() of such a literal is the decoded str",
               "xsd:float values are compared as Python floats (RDFLib's documented mapping), not 32-bit floats"]

X = xsd.XSD
PY_DT = {"int": "integer", "float": "double", "decimal": "decimal", "bool": "boolean", "date": "date", "time": "time", "datetime": "dateTime",
         "timedelta": "dayTimeDuration", "duration": "duration"}


def tzinfo(m):
    return None if m is None else timezone(timedelta(minutes=m))


def decode_py(j):
    k = j[0]
    if k == "int":
        return int(j[1])
    if k == "float":
        return float(j[1])
    if k == "decimal":
        return Decimal(j[1])
    if k == "bool":
        return bool(j[1])
    if k == "str":
        return j[1]
    if k == "bytes":
        return j[1].encode("utf-8")
    if k == "date":
        return date(*j[1:4])
    if k == "time":
        return time(j[1], j[2], j[3], j[4], tzinfo=tzinfo(j[5]))
    if k == "datetime":
        return datetime(j[1], j[2], j[3], j[4], j[5], j[6], j[7], tzinfo=tzinfo(j[8]))
    if k == "timedelta":
        return timedelta(days=j[1], seconds=j[2], microseconds=j[3])
    if k == "duration":
        sign = -1 if j[1] else 1
        return Duration(years=sign * j[2], months=sign * j[3], days=sign * j[4], seconds=sign * j[5], microseconds=sign * j[6])
    raise ValueError(j)


def same_value(a, b):
    if isinstance(a, float) and isinstance(b, float):
        return (math.isnan(a) and math.isnan(b)) or (a == b and math.copysign(1, a) == math.copysign(1, b))
    if type(a) is not type(b) and not (isinstance(a, (timedelta, Duration)) and isinstance(b, (timedelta, Duration))):
        return False
    if isinstance(a, (datetime, time)):
        return a == b and (a.tzinfo is None) == (b.tzinfo is None) and a.utcoffset() == b.utcoffset()
    return a == b


def as_ref_duration(v):
    """rdflib duration value -> ('duration', months, seconds Decimal)"""
    if isinstance(v, Duration):
        td = v.tdelta
        return ("duration", int(v.years) * 12 + int(v.months), Decimal(td.days * 86400 + td.seconds) + Decimal(td.microseconds) / Decimal(10 ** 6))
    if isinstance(v, timedelta):
        return ("duration", 0, Decimal(v.days * 86400 + v.seconds) + Decimal(v.microseconds) / Decimal(10 ** 6))
    return None


def run_pyvalue(case):
    out = Out()
    j = case["v"]
    v = decode_py(j)
    kind = j[0]
    out.nontrivial = case.get("cls", "plain") != "plain"
    lit = sut(Literal, v)
    if is_err(lit):
        out.fail(("literal-from-python-raises", kind, lit.kind), f"{v!r}: {lit!r}")
        return out
    out.cls("py:" + kind, "cls:" + case.get("cls", "plain"))
    if kind in ("str", "bytes"):
        text = v if kind == "str" else v.decode("utf-8")
        if lit.datatype is not None or lit.language is not None or str(lit) != text:
            out.fail(("python-text-literal-wrong", kind), f"Literal({v!r}) = {lit!r}")
            return out
        if kind == "str" and (lit.toPython() != v or not lit.eq(v)):
            out.fail(("str-does-not-convert-back",), f"{lit!r}")
        return out
    want_dt = PY_DT[kind]
    if kind == "duration" and False:
        pass
    if lit.datatype is None or str(lit.datatype) != X + want_dt:
        out.fail(("wrong-datatype", kind), f"Literal({v!r}).datatype = {lit.datatype}, documented xsd:{want_dt}")
        return out
    lex = str(lit)
    if not xsd.valid(want_dt, lex) or lex != xsd.collapse(lex):
        out.fail(("lexical-form-invalid-for-datatype", kind, case.get("cls", "plain")), f"Literal({v!r}) has lexical form {lex!r}, not valid xsd:{want_dt}")
        return out
    back = sut(lit.toPython)
    if is_err(back) or not same_value(back, v):
        out.fail(("does-not-convert-back", kind, case.get("cls", "plain")), f"Literal({v!r}).toPython() = {back!r}")
        return out
    # the lexical form denotes the value (reference map), except where the reference has no Python representation
    try:
        ref = xsd.value(want_dt, lex)
        if want_dt == "date":
            ok = ref[0] == v
        elif want_dt in ("dayTimeDuration", "duration"):
            ok = as_ref_duration(v) == ref
        else:
            ok = same_value(ref, v)
        if not ok:
            out.fail(("lexical-form-denotes-other-value", kind, case.get("cls", "plain")), f"Literal({v!r}) -> {lex!r} which denotes {ref!r}")
            return out
    except xsd.OutOfPythonRange:
        pass
    re_ = sut(Literal, lex, datatype=lit.datatype)
    if is_err(re_) or not (re_ == lit) or re_.ill_typed:
        out.fail(("reparse-differs", kind, case.get("cls", "plain")), f"Literal({lex!r}, datatype={want_dt}) = {re_!r} ill_typed={getattr(re_, 'ill_typed', None)} vs {lit!r}")
        return out
    e = sut(lit.eq, re_)
    if kind == "float" and math.isnan(v):
        pass
    elif is_err(e) or e is not True:
        out.fail(("eq-false-for-equal-terms", kind), f"{lit!r}.eq({re_!r}) = {e!r}")
        return out
    if kind in ("int", "float", "bool", "date", "time", "datetime") and not (kind == "float" and math.isnan(v)):
        e = sut(lit.eq, v)
        if is_err(e) or e is not True:
            out.fail(("eq-with-python-value", kind), f"{lit!r}.eq({v!r}) = {e!r}")
            return out
    out.sub_evals = 5
    return out


def rdflib_value_matches(dt, lit, ref):
    v = lit.value
    if dt in xsd.INT_RANGES:
        return type(v) is int and v == ref
    if dt == "decimal":
        return isinstance(v, Decimal) and v == ref
    if dt in ("double", "float"):
        return isinstance(v, float) and same_value(v, ref)
    if dt == "boolean":
        return v is ref
    if dt in ("hexBinary", "base64Binary"):
        return isinstance(v, bytes) and v == ref
    if dt == "dateTime":
        return isinstance(v, datetime) and same_value(v, ref)
    if dt == "time":
        return isinstance(v, time) and same_value(v, ref)
    if dt == "date":
        return isinstance(v, date) and not isinstance(v, datetime) and v == ref[0]
    if dt in ("duration", "dayTimeDuration", "yearMonthDuration"):
        return as_ref_duration(v) == ref
    if dt in ("string", "normalizedString", "token", "anyURI", "language"):
        return str(lit) == ref
    return False


def run_lexical(case):
    out = Out()
    dt, lex, cls = case["dt"], case["lex"], case["cls"]
    out.cls("dt:" + dt, "cls:" + cls.split("/")[0])
    assert xsd.valid(dt, lex), ("generator produced an invalid form", dt, lex)
    iri = URIRef(X + dt)
    try:
        ref = xsd.value(dt, lex)
        in_range = True
    except xsd.OutOfPythonRange:
        ref, in_range = None, False
    if K.skip("C09-outside-python-range", not in_range, out):
        return out
    if dt == "date" and ref is not None and ref[1] is not None:
        # the recorded finding is that the offset is dropped from value and normal form; that the form is accepted as a date
        # (no exception, not flagged ill-typed) is outside it and stays checked, for every offset XSD allows (up to 14:00)
        lit = sut(Literal, lex, datatype=iri)
        if is_err(lit):
            out.fail(("literal-raises", dt, lit.kind), f"{lex!r}^^{dt}: {lit!r}")
            return out
        if lit.ill_typed:
            out.fail(("valid-form-flagged-ill-typed", dt, "with-offset"), f"{lex!r}^^xsd:{dt} ill_typed={lit.ill_typed}")
            return out
    if K.skip("C09-date-timezone-dropped", dt == "date" and ref is not None and ref[1] is not None, out):
        return out
    if K.skip("C09-negative-mixed-duration", dt == "duration" and ref is not None and ref[1] < 0 and ref[2] < 0, out):
        return out
    lit = sut(Literal, lex, datatype=iri)
    if is_err(lit):
        out.fail(("literal-raises", dt, lit.kind), f"{lex!r}^^{dt}: {lit!r}")
        return out
    norm = str(lit)
    out.nontrivial = cls.split("/")[0] != "plain" or "/" in cls or norm != lex
    if lit.ill_typed:
        out.fail(("valid-form-flagged-ill-typed", dt, cls.split("/")[0] if in_range else "outside-python-range"), f"{lex!r}^^xsd:{dt} ill_typed={lit.ill_typed}")
        return out
    if not in_range:
        out.fail(("valid-form-without-python-value-accepted?",), "unreachable") if False else None
        return out
    if not rdflib_value_matches(dt, lit, ref):
        out.fail(("wrong-value", dt, cls.split("/")[0]), f"{lex!r}^^xsd:{dt}: value {lit.value!r}, XSD assigns {ref!r}")
        return out
    if dt == "date" and ref[1] is not None:
        out.fail(("date-timezone-dropped",), f"{lex!r}^^xsd:date -> {norm!r}")
        return out
    # normalised form: valid, same value
    if not xsd.valid(dt, norm):
        out.fail(("normal-form-invalid", dt, cls.split("/")[0]), f"{lex!r}^^xsd:{dt} normalised to {norm!r}")
        return out
    try:
        nref = xsd.value(dt, norm)
    except xsd.OutOfPythonRange:
        nref = None
    same = same_value(nref, ref) if not isinstance(ref, tuple) else nref == ref
    if not same:
        out.fail(("normal-form-denotes-other-value", dt, cls.split("/")[0]), f"{lex!r}^^xsd:{dt} normalised to {norm!r}: {ref!r} vs {nref!r}")
        return out
    again = sut(Literal, norm, datatype=iri)
    if is_err(again) or not (again == lit) or str(again) != norm:
        out.fail(("normalisation-not-idempotent", dt), f"{lex!r} -> {norm!r} -> {again!r}")
        return out
    n2 = sut(lit.normalize)
    if is_err(n2) or not (n2 == lit):
        out.fail(("normalize()-changes-normalised-literal", dt), f"{lit!r}.normalize() = {n2!r}")
        return out
    # non-normalising construction keeps the form and gives the same value
    raw = sut(Literal, lex, datatype=iri, normalize=False)
    if is_err(raw) or str(raw) != (lex if dt not in ("normalizedString", "token") else str(raw)) or raw.ill_typed:
        out.fail(("normalize-false-changes-form-or-flags", dt), f"{lex!r}: {raw!r} ill_typed={getattr(raw, 'ill_typed', None)}")
        return out
    if not rdflib_value_matches(dt, raw, ref) and dt not in ("string", "normalizedString", "token", "anyURI", "language"):
        out.fail(("normalize-false-wrong-value", dt), f"{lex!r}: {raw.value!r} vs {ref!r}")
        return out
    e = sut(raw.eq, lit)
    isnan = isinstance(ref, float) and math.isnan(ref)
    if not isnan and (is_err(e) or e is not True):
        out.fail(("eq-false-for-same-value", dt), f"{raw!r}.eq({lit!r}) = {e!r}")
        return out
    out.sub_evals = 7
    return out


FAMILY = {}
for _n in list(xsd.INT_RANGES) + ["decimal", "double", "float"]:
    FAMILY[_n] = "numeric"
for _n in ("string",):
    FAMILY[_n] = "string"
for _n in ("boolean", "dateTime", "time", "hexBinary", "base64Binary", "duration", "dayTimeDuration", "yearMonthDuration"):
    FAMILY[_n] = _n


def run_eq(case):
    out = Out()
    lits, refs = [], []
    for dt, lex, cls in case["pair"]:
        try:
            ref = xsd.value(dt, lex)
        except xsd.OutOfPythonRange:
            return out
        lit = sut(Literal, lex, datatype=URIRef(X + dt))
        if is_err(lit) or lit.ill_typed or lit.value is None:
            return out  # reported by the lexical sub-check
        lits.append(lit); refs.append(ref)
    a, b = lits
    fa, fb = FAMILY.get(case["pair"][0][0]), FAMILY.get(case["pair"][1][0])
    out.nontrivial = case["pair"][0][1] != case["pair"][1][1]
    out.cls("family:" + str(fa))
    if a == b:
        e = sut(a.eq, b)
        isnan = isinstance(refs[0], float) and math.isnan(refs[0])
        if not isnan and (is_err(e) or e is not True):
            out.fail(("term-equal-but-not-eq", str(fa)), f"{a!r} == {b!r} but eq = {e!r}")
            return out
    if fa is not None and fa == fb:
        dta, dtb = case["pair"][0][0], case["pair"][1][0]
        if fa != "numeric" and dta != dtb and fa in ("duration",):
            return out
        if fa in ("duration", "dayTimeDuration", "yearMonthDuration") and dta != dtb:
            return out
        want = refs[0] == refs[1]
        if fa in ("dateTime", "time") and (refs[0].tzinfo is None) != (refs[1].tzinfo is None):
            return out  # naive vs aware: indeterminate in XSD
        e = sut(a.eq, b)
        if is_err(e):
            out.fail(("eq-raises", str(fa), e.kind), f"{a!r}.eq({b!r}): {e!r}")
            return out
        if e != want:
            out.fail(("eq-disagrees-with-values", str(fa), "true-for-different" if e else "false-for-equal"),
                     f"{a!r}.eq({b!r}) = {e}; reference values {refs[0]!r} {refs[1]!r}")
            return out
        e2 = sut(b.eq, a)
        if is_err(e2) or e2 != e:
            out.fail(("eq-not-symmetric", str(fa)), f"{a!r} {b!r}: {e} vs {e2!r}")
            return out
    return out


# ---------------------------------------------------------------- strategies
def py_values():
    tz = st.one_of(st.none(), st.just(0), st.integers(-14 * 60, 14 * 60))
    ints = st.one_of(st.integers(-1000, 1000), st.integers(), st.sampled_from([0, -1, 2 ** 31, 2 ** 63, -2 ** 63, 2 ** 64, 10 ** 30])).map(lambda i: (["int", str(i)], "plain" if abs(i) < 1000 else "big"))
    floats = st.one_of(st.floats(), st.floats(allow_nan=False, allow_infinity=False, min_value=-1e6, max_value=1e6),
                       st.sampled_from([0.0, -0.0, float("inf"), float("-inf"), float("nan"), 5e-324, 1e22, 1e-7, 1.7976931348623157e308, 0.1, 1e16, 123456789.123456789])
                       ).map(lambda f: (["float", repr(f)], "nonfinite" if f != f or f in (float("inf"), float("-inf")) else ("exp" if "e" in repr(f) else ("minus-zero" if repr(f) == "-0.0" else "plain"))))
    decs = st.one_of(st.decimals(allow_nan=False, allow_infinity=False), st.sampled_from([Decimal("0"), Decimal("-0"), Decimal("1E+5"), Decimal("1E-10"), Decimal("1.50"), Decimal("-0.0"), Decimal("123456789012345678901234567890.123456789")])
                     ).map(lambda d: (["decimal", str(d)], "exponent" if "E" in str(d) else "plain"))
    bools = st.booleans().map(lambda b: (["bool", b], "plain"))
    strs = st.lists(st.sampled_from(list("ab \t\n\"'\\é") + ["\U0001F600", "\x00"]), max_size=6).map("".join)
    s1 = strs.map(lambda s: (["str", s], "plain" if s.isalnum() else "special"))
    b1 = strs.map(lambda s: (["bytes", s], "bytes"))
    dates = st.dates().map(lambda d: (["date", d.year, d.month, d.day], "plain" if d.year >= 1000 else "year-lt-1000"))
    dates2 = st.sampled_from([date.min, date.max, date(2024, 2, 29)]).map(lambda d: (["date", d.year, d.month, d.day], "boundary"))
    times = st.tuples(st.times(), tz).map(lambda p: (["time", p[0].hour, p[0].minute, p[0].second, p[0].microsecond, p[1]], "tz" if p[1] is not None else ("fraction" if p[0].microsecond else "plain")))
    dts = st.tuples(st.datetimes(min_value=datetime(1, 1, 2), max_value=datetime(9999, 12, 30)), tz).map(
        lambda p: (["datetime", p[0].year, p[0].month, p[0].day, p[0].hour, p[0].minute, p[0].second, p[0].microsecond, p[1]],
                   "tz" if p[1] is not None else ("year-lt-1000" if p[0].year < 1000 else ("fraction" if p[0].microsecond else "plain"))))
    dts2 = st.sampled_from([datetime.min, datetime.max]).map(lambda d: (["datetime", d.year, d.month, d.day, d.hour, d.minute, d.second, d.microsecond, None], "boundary"))
    tds = st.one_of(st.timedeltas(), st.timedeltas(min_value=timedelta(days=-400), max_value=timedelta(days=400)),
                    st.sampled_from([timedelta(0), timedelta.max, timedelta.min, timedelta(microseconds=1), timedelta(days=-1), timedelta(days=200000, microseconds=1)])
                    ).map(lambda t: (["timedelta", t.days, t.seconds, t.microseconds], "negative" if t.days < 0 else ("zero" if not t else ("huge" if abs(t.days) > 100000 else "plain"))))
    durs = st.tuples(st.booleans(), st.integers(0, 3000), st.integers(0, 40), st.integers(0, 500), st.integers(0, 86399), st.sampled_from([0, 0, 1, 500000, 999999])).filter(
        lambda p: (p[1] or p[2]) and not (p[0] and (p[3] or p[4] or p[5]))).map(lambda p: (["duration", p[0], p[1], p[2], p[3], p[4], p[5]], "negative" if p[0] else ("months-overflow" if p[2] > 11 else "plain")))
    return st.one_of(ints, floats, floats, decs, decs, bools, s1, b1, dates, dates2, times, dts, dts, dts2, tds, tds, durs).map(lambda p: {"v": p[0], "cls": p[1]})


def strat_py(tier):
    return py_values()


def strat_lex(tier):
    return xsd.lexical_forms().map(lambda t: {"dt": t[0], "lex": t[1], "cls": t[2]})


def strat_eq(tier):
    fam = {}
    def key(t):
        return FAMILY.get(t[0])
    one = xsd.lexical_forms().filter(lambda t: FAMILY.get(t[0]) is not None)
    # second member: same family (drawn by re-drawing until the family matches is wasteful; instead draw two and keep same-family pairs,
    # plus an explicit same-datatype variant)
    pair = st.tuples(one, one).filter(lambda p: FAMILY[p[0][0]] == FAMILY[p[1][0]])
    num = st.tuples(xsd.lexical_forms().filter(lambda t: FAMILY.get(t[0]) == "numeric"), xsd.lexical_forms().filter(lambda t: FAMILY.get(t[0]) == "numeric"))
    return st.one_of(num, num, pair).map(lambda p: {"pair": [list(p[0]), list(p[1])]})


# ---------------------------------------------------------------- a literal and the literal rebuilt from its own lexical form
STRINGY = ["string", "normalizedString", "token", "language", "Name", "NCName", "anyURI"]


def run_rebuild(case):
    """Literal(lex, dt) and Literal(str(that), dt) are the same term, so they must be eq() too and hash alike; and normalising what is
    already normalised changes nothing (the rebuilt literal has the same lexical form)"""
    out = Out()
    dt, lex = case["dt"], case["lex"]
    a = sut(Literal, lex, datatype=URIRef(X + dt))
    if is_err(a):
        return out  # rejected input: reported by the lexical sub-check where the form is valid
    b = sut(Literal, str(a), datatype=a.datatype)
    if is_err(b):
        out.fail(("rebuild-raises", dt, b.kind), f"Literal({str(a)!r}, {dt}): {b!r}")
        return out
    out.nontrivial = str(a) != lex
    out.cls("rebuild:" + dt, "lexical-changed" if str(a) != lex else "lexical-kept")
    if str(b) != str(a):
        out.fail(("normalisation-not-idempotent", dt), f"{lex!r} -> {str(a)!r} -> {str(b)!r}")
        return out
    if not (a == b) or hash(a) != hash(b):
        out.fail(("rebuilt-literal-not-term-equal", dt), f"{a!r} vs {b!r}")
        return out
    isnan = isinstance(a.value, float) and math.isnan(a.value)
    e = sut(a.eq, b)
    if not isnan and (is_err(e) or e is not True):
        out.fail(("term-equal-but-not-eq", "rebuilt", dt), f"{a!r} == {b!r} but eq = {e!r} (values {a.value!r} / {b.value!r})")
        return out
    return out


def strat_rebuild(tier):
    from pbt.gen import terms as gt
    ws = st.lists(st.sampled_from([" ", "  ", "\t", "\n", "\r", "a", "b", "é", "a b", "-", "1", ":"]), max_size=6).map("".join)
    stringy = st.tuples(st.sampled_from(STRINGY), ws).map(lambda x: {"dt": x[0], "lex": x[1]})
    table = st.sampled_from([(d, l) for tab in (gt.TYPED_CANON, gt.TYPED_NONCANON, gt.TYPED_INVALID) for d, ls in tab for l in ls]).map(
        lambda x: {"dt": x[0], "lex": x[1]})
    padded = st.sampled_from([(d, l) for d, ls in gt.TYPED_CANON for l in ls]).flatmap(
        lambda x: st.sampled_from([" %s", "%s ", "\t%s\n", " %s  "]).map(lambda f: {"dt": x[0], "lex": f % x[1]}))
    return st.one_of(stringy, stringy, table, padded)


SUBCHECKS = [
    Sub("pyvalue", strat_py, run_pyvalue, {"quick": 24000, "thorough": 600000}, weight=5),
    Sub("lexical", strat_lex, run_lexical, {"quick": 30000, "thorough": 800000}, weight=7),
    Sub("eq", strat_eq, run_eq, {"quick": 12000, "thorough": 300000}, weight=4),
    Sub("rebuild", strat_rebuild, run_rebuild, {"quick": 8000, "thorough": 200000}, weight=2),
]
