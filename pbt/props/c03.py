"""C03 — Serialise then parse gives back the same RDF graph, in every syntax.

graphs x {nt, turtle, longturtle, n3, xml, pretty-xml, json-ld, hext} x options (base, prefix bindings): parse(serialize(g)) must be
isomorphic to g (independent backtracking oracle over identity tuples), and serialisation must terminate (bounded number of graph
reads) on every finite graph, including cyclic / malformed rdf:List structures."""
from __future__ import annotations

import re
import unicodedata

from hypothesis import strategies as st

import rdflib
from rdflib import BNode, Graph, Literal, URIRef

from pbt.codec import T, key, tkey
from pbt.core import HarnessStepLimit, K, Out, Sub, counting_graph_class, is_err, sut
from pbt.gen import graphs as gg
from pbt.gen import terms as gt
from pbt.oracle import iso

RULE = ("graphs of 0-10 pool triples plus blank-node structures (symmetric families, trees/DAGs, self loops, unreferenced nodes), rdf:List "
        "structures (well-formed, nested, shared tail, and 8 malformed shapes incl. cyclic), reification; IRIs with %HH, non-ASCII, '#', "
        "trailing '.', empty local part; literals over the nasty alphabet, all datatypes in normal and non-normal form, language tags; x 8 "
        "syntaxes x {base None/prefix-of-IRIs, prefixes none/default/adversarial}. What a syntax cannot state is removed by construction and "
        "counted. Non-trivial = graph has a blank node, or a literal needing an escape/shorthand/datatype, or a list structure; distinct by "
        "SHA-1 of the case JSON.")
ASSUMPTIONS = ["literals are compared in RDFLib's normal form: parsing re-normalises by documented design (rdflib.NORMALIZE_LITERALS)",
               "hext may identify plain literals with xsd:string literals (allowed by the property)",
               "RDF/XML: graphs whose predicates cannot be split into namespace + NCName, or whose strings contain non-XML-1.0 characters, are "
               "inexpressible and not generated for that syntax",
               "non-termination = more than 400*(|G|+2)^2 Graph.triples() calls during serialisation"]

FORMATS = [("nt", "nt"), ("turtle", "turtle"), ("longturtle", "turtle"), ("n3", "n3"), ("xml", "xml"), ("pretty-xml", "xml"), ("json-ld", "json-ld"), ("hext", "hext")]
CG = counting_graph_class(Graph)
XSD_STRING = gt.XSD + "string"


def ncname_tail(iri):
    """can the IRI be split as namespace + NCName (what an RDF/XML element name needs)"""
    m = re.search(r"[A-Za-z_][A-Za-z0-9_.\-]*\Z", iri)
    if not m or m.start() == 0:
        return False
    return True


def expressible(triples, fmt):
    if fmt in ("xml", "pretty-xml"):
        for s, p, o in triples:
            if not ncname_tail(p[1]):
                return False
            if o[0] == "l" and not gt.xml_ok(o[1]):
                return False
            for x in (s, p, o):
                if x[0] in ("u", "b") and not gt.xml_ok(x[1]):
                    return False
            if o[0] == "l" and len(o) > 3 and o[3] == gt.RDFNS + "HTML":
                return False  # written as markup; outside plain term identity
            if o[0] == "l" and len(o) > 3 and o[3] == gt.RDFNS + "XMLLiteral" and not (gt.wellformed_xml_fragment(o[1]) and "<" in o[1]):
                return False  # only well-formed element content is written as rdf:parseType="Literal" and read back as the same term
    if fmt == "json-ld":
        for s, p, o in triples:
            if o[0] == "l" and len(o) > 3 and o[3] == gt.RDFNS + "JSON":
                return False
    return True


def xml_name_hazard(iri):
    """class of known finding C03-rdfxml-illformed-names: RDFLib's split keeps %, ( and ) in the element name"""
    m = re.search(r"[\w.\-%()\u00b7]*\Z", iri)
    return bool(m) and any(c in m.group(0) for c in "%()")


def hext_norm(k):
    """hext: simple literals and xsd:string literals are identified"""
    if k[0] == "l" and k[2] == XSD_STRING:
        return ("l", k[1], None, None)
    return k


def nontrivial(triples, feats):
    if feats:
        return True
    for t in triples:
        for x in t:
            if x[0] == "b":
                return True
            if x[0] == "l" and ((len(x) > 3 and x[3]) or (len(x) > 2 and x[2]) or any(c in x[1] for c in "\"\\\n\r\t") or not x[1].isascii()):
                return True
    return False


def double_loses_precision(o):
    """class of known finding C03-turtle-double-shorthand: the %e rendering of the double does not read back equal"""
    if o[0] != "l" or len(o) < 4 or o[3] != gt.XSD + "double":
        return False
    try:
        v = float(o[1])
    except ValueError:
        return False
    if v != v or v in (float("inf"), float("-inf")):
        return False
    return float("%e" % v) != v


def run(case):
    out = Out()
    fmt, pfmt = case["fmt"], case["pfmt"]
    triples = case["triples"]
    if not expressible(triples, fmt):
        out.cls("inexpressible:" + fmt)
        return out
    bind = case.get("bind", "default")
    g = CG(bind_namespaces="none") if bind == "none" else CG()
    if bind == "adversarial":
        g.bind("a", "http://ex.org/")
        g.bind("ab", "http://ex.org/a/")
        g.bind("", "http://ex.org/ns#")
        g.bind("_u", "urn:ex:")
    for t in triples:
        g.add(tuple(T(x) for x in t))
    want = {tkey(t) for t in g}
    turtle_family = fmt in ("turtle", "longturtle", "n3")
    if K.skip("C03-turtle-double-shorthand", turtle_family and any(double_loses_precision(t[2]) for t in triples), out):
        return out
    if K.skip("C03-rdfxml-illformed-names", fmt in ("xml", "pretty-xml") and any(xml_name_hazard(t[1][1]) for t in triples), out):
        return out
    feats0 = case.get("feats", [])
    kw = {}
    if case.get("base"):
        kw["base"] = case["base"]
    g.arm(400 * (len(g) + 2) ** 2)
    try:
        data = sut(g.serialize, format=fmt, **kw)
    finally:
        g.disarm()
    feats = case.get("feats", [])
    lists = [f for f in feats if f.startswith("list:")]
    tag = lists[0] if lists else (feats[0] if feats else "plain")
    if is_err(data):
        if isinstance(data.exc, HarnessStepLimit):
            out.fail((fmt, "serialisation-does-not-terminate", tag), f"{case}")
        else:
            out.fail((fmt, "serialize-raises", data.kind, data.site, tag), f"{case}: {data!r}")
        return out
    if {tkey(t) for t in g} != want:
        out.fail((fmt, "serialize-mutates-graph"), f"{case}")
        return out
    pkw = {}
    if case.get("base"):
        pkw["publicID"] = case["base"]
    back = sut(lambda: Graph().parse(data=data, format=pfmt, **pkw))
    if is_err(back):
        out.fail((fmt, "own-output-does-not-parse", back.kind, tag), f"{case}: {back!r}\n--- output:\n{data[:1500]}")
        return out
    got = {tkey(t) for t in back}
    w2 = want
    if fmt == "hext":
        got = {tuple(hext_norm(k) for k in t) for t in got}
        w2 = {tuple(hext_norm(k) for k in t) for t in want}
    try:
        same = iso.isomorphic(w2, got)
    except iso.IsoBudget:
        out.cls("oracle-budget")
        return out
    if not same:
        ground_w = {t for t in w2 if not any(iso.is_b(x) for x in t)}
        ground_g = {t for t in got if not any(iso.is_b(x) for x in t)}
        lost, extra = ground_w - ground_g, ground_g - ground_w
        if lost or extra:
            t = next(iter(lost or extra))
            o = t[2]
            what = ("literal:" + (o[2].split("#")[-1] if o[2] else ("lang" if o[3] else "plain"))) if o[0] == "l" else "iri"
            kind = "lost+added" if lost and extra else ("lost" if lost else "added")
        else:
            what, kind = "bnode-structure", "lost" if len(got) < len(w2) else ("added" if len(got) > len(w2) else "reshaped")
        out.fail((fmt, "roundtrip-differs", kind, what, tag),
                 f"{case}\n lost={sorted(w2 - got, key=repr)[:6]}\n extra={sorted(got - w2, key=repr)[:6]}\n--- output:\n{data[:1500]}")
        return out
    out.nontrivial = nontrivial(triples, feats)
    out.cls("fmt:" + fmt, *["feat:" + f for f in feats])
    return out


def strategy_for(fmt, pfmt):
    xml = fmt in ("xml", "pretty-xml")

    def strat(tier):
        big = tier == "thorough"
        g = gg.graphs(max_triples=10, xml_safe=xml, noncanon=True, invalid=True, max_bnodes=12 if big else 8)
        return st.tuples(g, st.sampled_from([None, None, "http://ex.org/", "http://ex.org/a/b#"]), st.sampled_from(["default", "none", "adversarial"])).map(
            lambda p: {"fmt": fmt, "pfmt": pfmt, "triples": p[0][0], "feats": p[0][1], "base": p[1], "bind": p[2]})
    return strat


SUBCHECKS = [Sub(fmt, strategy_for(fmt, pfmt), run, {"quick": 4000, "thorough": 80000}, weight=2) for fmt, pfmt in FORMATS]
