"""C04 — SPARQL graph patterns evaluate to the solution multiset the algebra defines.

Generated query ASTs (BGP, joins of groups, OPTIONAL with/without FILTER, UNION, MINUS, FILTER with comparison/logical/EXISTS
expressions, BIND, VALUES, sub-SELECT, GRAPH) x generated data are rendered to SPARQL text for RDFLib and interpreted directly by an
independent bottom-up evaluator (pbt/oracle/sparqlref.py). Compared: Result.vars / Result.bindings as multisets; ASK; CONSTRUCT graphs
(up to blank-node renaming)."""
from __future__ import annotations

import json
import warnings
from collections import Counter

from hypothesis import strategies as st

import rdflib.plugins.sparql as sparql_mod
from rdflib import BNode, Dataset, Graph, Literal, URIRef, Variable

from pbt.codec import T, key
from pbt.core import K, Out, Sub, is_err, sut
from pbt.gen import sparql as gs
from pbt.oracle import iso
from pbt.oracle import sparqlref as ref

RULE = ("query ASTs of nesting depth <=3 (quick) / <=5 (thorough) over 5 variables, 3 IRIs, 2 predicates and 9 literals (integers, decimal, "
        "strings incl. empty and language-tagged, boolean), with repeated variables, non-well-designed OPTIONAL/MINUS/UNION nesting, sub-selects "
        "that hide variables, VALUES with UNDEF, correlated EXISTS; data 0-8 triples per graph; Graph.query, Dataset.query with the default "
        "graph as real default graph or as union; forms SELECT */vars, ASK, CONSTRUCT. Non-trivial = query has >=2 operators besides BGP and the "
        "reference multiset is non-empty; distinct by SHA-1 of the case JSON. Cases whose outcome the specification leaves to extension points "
        "(comparison of literals of different families etc.) are skipped and counted as 'grey'.")
ASSUMPTIONS = ["blank nodes in results are compared by identity with the data's labels (data is loaded through the API)",
               "FROM / FROM NAMED / SERVICE are outside the listed fragment",
               "the reference evaluator is harness code written from the specification; every disagreement with RDFLib seen while building was triaged by hand (DESIGN.md section 7)"]


def build_data(case):
    kind = case["kind"]
    d = case["data"]
    refds = {"default": {tuple(ref.jterm(x) for x in t) for t in d["default"]}, "named": {}}
    with warnings.catch_warnings():
        warnings.simplefilter("ignore")
        if kind == "graph":
            g = Graph()
            for t in d["default"]:
                g.add(tuple(T(x) for x in t))
            return g, refds, False
        union = kind == "dataset-union"
        ds = Dataset(default_union=union)
        for t in d["default"]:
            ds.add(tuple(T(x) for x in t))
        for name, iri in (("g1", "urn:g1"), ("g2", "urn:g2")):
            if d.get(name):
                gg = ds.graph(URIRef(iri))
                refds["named"][("u", iri)] = set()
                for t in d[name]:
                    gg.add(tuple(T(x) for x in t))
                    refds["named"][("u", iri)].add(tuple(ref.jterm(x) for x in t))
        return ds, refds, union


def sol_counter(bindings, vars_=None):
    c = Counter()
    for b in bindings:
        items = []
        for k, v in b.items():
            if v is None:
                continue
            if vars_ is not None and str(k) not in vars_:
                continue
            items.append((str(k), key(v)))
        c[frozenset(items)] += 1
    return c


def construct_ref(template, sols):
    out = set()
    for i, mu in enumerate(sols):
        for tp in template:
            t = []
            ok = True
            for pos, x in enumerate(tp):
                if ref.is_var(x):
                    if x[1] not in mu:
                        ok = False
                        break
                    v = mu[x[1]]
                elif x[0] == "tb":
                    v = ("b", f"{x[1]}-sol{i}")
                else:
                    v = ref.jterm(x)
                if (pos == 0 and v[0] == "l") or (pos == 1 and v[0] != "u"):
                    ok = False
                    break
                t.append(v)
            if ok:
                out.add(tuple(t))
    return out


def template_text(template):
    def tt(x):
        if x[0] == "tb":
            return "_:" + x[1]
        return gs.term_text(x)
    return " ".join(f"{tt(s)} {tt(p)} {tt(o)} ." for s, p, o in template)


def contains(p, kind):
    if p[0] == kind:
        return True
    return any(contains(x, kind) for x in p[1:] if isinstance(x, list) and x and isinstance(x[0], str) and x[0] in
               ("bgp", "join", "opt", "union", "minus", "filter", "bind", "values", "sub", "graph", "group"))


KINDS = ("bgp", "join", "opt", "union", "minus", "filter", "bind", "values", "sub", "graph", "group")


def subpatterns(p):
    yield p
    for x in p[1:]:
        if isinstance(x, list) and x and isinstance(x[0], str) and x[0] in KINDS:
            yield from subpatterns(x)


def expr_vars(e):
    out = set()
    if not isinstance(e, list) or not e:
        return out
    if e[0] in ("var", "bound"):
        out.add(e[1])
    if e[0] in ("exists", "notexists"):
        return out  # EXISTS patterns are substituted, their variables are handled by the reference
    for x in e[1:]:
        if isinstance(x, list):
            if x and isinstance(x[0], str):
                out |= expr_vars(x)
            else:
                for y in x:
                    out |= expr_vars(y)
    return out


def expr_vars_deep(e):
    """variables of an expression including those inside the patterns of EXISTS / NOT EXISTS"""
    out = set(expr_vars(e))
    if isinstance(e, list) and e:
        if e[0] in ("exists", "notexists"):
            return out | all_vars(e[1])
        for x in e[1:]:
            if isinstance(x, list):
                if x and isinstance(x[0], str):
                    out |= expr_vars_deep(x)
                else:
                    for y in x:
                        out |= expr_vars_deep(y)
    return out


def filter_out_of_scope(p):
    """class of known finding C04-filter-out-of-scope-var: a FILTER (or OPTIONAL filter) mentions a variable that is not in scope in
    its own group but is in scope elsewhere in the query (RDFLib evaluates groups with outer bindings pushed in)"""
    everywhere = set()
    for q in subpatterns(p):
        if q[0] != "sub":
            everywhere |= ref.in_scope(q)
    for q in subpatterns(p):
        if q[0] == "filter":
            if (expr_vars(q[1]) - ref.in_scope(q[2])) & everywhere:
                return True
        if q[0] == "opt" and q[3] is not None:
            if (expr_vars(q[3]) - (ref.in_scope(q[1]) | ref.in_scope(q[2]))) & everywhere:
                return True
        if q[0] == "bind":
            if (expr_vars(q[2]) - ref.in_scope(q[1])) & everywhere:
                return True
    return False


def pushes_into_scoped_operator(p):
    """class of known finding C04-bindings-pushed-into-right-operand: a join or OPTIONAL whose right operand contains MINUS, OPTIONAL, FILTER
    or BIND and shares a variable with the left operand (RDFLib evaluates the right operand with the left solution's bindings pushed in,
    which changes what those operators see)"""
    for q in subpatterns(p):
        if q[0] in ("join", "opt"):
            right = q[2]
            if any(contains(right, k) for k in ("minus", "opt", "filter", "bind")):
                lv = set()
                for x in subpatterns(q[1]):
                    lv |= ref.in_scope(x) if x[0] != "sub" else set()
                rv = set()
                for x in subpatterns(right):
                    if x[0] == "bgp":
                        rv |= ref.in_scope(x)
                    elif x[0] in ("filter",):
                        rv |= expr_vars_deep(x[1])  # (a pushed binding also reaches the pattern of an EXISTS)
                    elif x[0] == "bind":
                        rv |= expr_vars_deep(x[2]) | {x[3]}
                    elif x[0] == "opt" and x[3] is not None:
                        rv |= expr_vars_deep(x[3])
                    elif x[0] == "values":
                        rv |= set(x[1])
                if lv & rv or (lv and contains(right, "minus")):
                    # (with MINUS inside, every pushed variable ends up in both of its operands' solutions)
                    return True
    return False


def all_vars(p):
    out = set()
    for x in subpatterns(p):
        if x[0] == "bgp":
            out |= ref.in_scope(x)
        elif x[0] == "values":
            out |= set(x[1])
        elif x[0] == "bind":
            out |= {x[3]} | expr_vars(x[2])
        elif x[0] == "filter":
            out |= expr_vars(x[1])
        elif x[0] == "opt" and x[3] is not None:
            out |= expr_vars(x[3])
        elif x[0] == "graph" and ref.is_var(x[1]):
            out.add(x[1][1])
    return out


def opt_condition_over_subselect(p):
    """same finding, seen from the other side: the condition of an OPTIONAL mentions a variable of the left operand while the right
    operand holds a sub-SELECT; RDFLib lets the condition see the left solution only through the bindings it pushes into the right
    operand, and a sub-SELECT does not hand those on"""
    for q in subpatterns(p):
        if q[0] != "opt":
            continue
        conds = [q[3]] if len(q) > 3 and q[3] is not None else []
        b = q[2]
        while b[0] == "filter":
            conds.append(b[1])
            b = b[2]
        if not conds or not contains(q[2], "sub"):
            continue
        cv = set()
        for e in conds:
            cv |= expr_vars_deep(e)
        if (cv - ref.in_scope(q[2])) & ref.in_scope(q[1]):
            return True
    return False


def subselect_hides_shared_var(p, top=True):
    """class of known finding C04-subselect-scope-leak: a sub-SELECT does not project a variable that also occurs outside it"""
    if opt_condition_over_subselect(p):
        return True
    subs = [q for q in subpatterns(p) if q[0] == "sub" and q[1] is not None]
    for q in subs:
        hidden = all_vars(q[3]) - set(q[1])
        if not hidden:
            continue
        # variables occurring outside this sub-select: everything in p with this node blanked out
        marker = json.dumps(q)
        outside = json.loads(json.dumps(p).replace(marker, json.dumps(["values", ["zz"], []]), 1))
        if hidden & all_vars(outside):
            return True
    return False


def needs_no_triples(p):
    """can the pattern have a solution over an empty graph"""
    k = p[0]
    if k == "bgp":
        return not p[1]
    if k == "values":
        return True
    if k == "join":
        return needs_no_triples(p[1]) and needs_no_triples(p[2])
    if k == "union":
        return needs_no_triples(p[1]) or needs_no_triples(p[2])
    if k in ("opt", "minus", "bind"):
        return needs_no_triples(p[1])
    if k == "filter":
        return needs_no_triples(p[2])
    if k == "graph":
        return True  # a nested GRAPH does not look at the graph around it at all
    if k == "sub":
        return needs_no_triples(p[3])
    return False


def graph_var_over_values(p):
    """class of known finding C04-graph-var-nonexistent: GRAPH ?g { P } where P can have a solution without any triple (inline data, { })"""
    return any(q[0] == "graph" and ref.is_var(q[1]) and (contains(q[2], "values") or needs_no_triples(q[2])) for q in subpatterns(p))


def opt_with_values_left(p):
    """class of known finding C04-leftjoin-values-left: an OPTIONAL whose left operand contains inline data"""
    if p[0] == "opt" and contains(p[1], "values"):
        return True
    return any(opt_with_values_left(x) for x in p[1:] if isinstance(x, list) and x and isinstance(x[0], str) and x[0] in
               ("bgp", "join", "opt", "union", "minus", "filter", "bind", "values", "sub", "graph", "group"))


def valid(p):
    """structural sanity (the shrinker may produce shapes the generator never does)"""
    k = p[0]
    if k == "bgp":
        return all(len(tp) == 3 for tp in p[1])
    if k == "values":
        return len(p[1]) >= 1 and all(len(r) == len(p[1]) for r in p[2])
    if k in ("join", "union", "minus"):
        return valid(p[1]) and valid(p[2])
    if k == "opt":
        return valid(p[1]) and valid(p[2])
    if k == "filter":
        return valid(p[2])
    if k == "bind":
        return valid(p[1]) and p[3] not in ref.in_scope(p[1])
    if k == "graph":
        return valid(p[2])
    if k == "sub":
        return valid(p[3]) and (p[1] is None or len(p[1]) >= 1)
    return True


def run(case):
    out = Out()
    pat = case["pattern"]
    form = case["form"]
    if not valid(pat) or (form == "construct" and not case.get("template")) or (case.get("vars") is not None and not case["vars"]):
        out.cls("invalid-shape")
        return out
    if K.skip("C04-values-vars-not-recorded", contains(pat, "values") and (contains(pat, "opt") or contains(pat, "bind")), out):
        return out
    if K.skip("C04-filter-out-of-scope-var", filter_out_of_scope(pat), out):
        return out
    if K.skip("C04-graph-var-nonexistent", graph_var_over_values(pat), out):
        return out
    if K.skip("C04-bindings-pushed-into-right-operand", pushes_into_scoped_operator(pat), out):
        return out
    if K.skip("C04-subselect-scope-leak", subselect_hides_shared_var(pat), out):
        return out
    target, refds, union = build_data(case)
    env = ref.Env(refds, union)
    try:
        sols = ref.eval_pattern(pat, env)
    except ref.Grey as g:
        out.cls("grey:" + str(g)[:40])
        return out
    except RecursionError:
        return out
    body = gs.group_text(pat)
    vars_ = case.get("vars")
    if form == "select":
        head = "*" if vars_ is None else " ".join("?" + v for v in vars_)
        q = f"SELECT {head} WHERE {body}"
    elif form == "ask":
        q = f"ASK {body}"
    else:
        q = f"CONSTRUCT {{ {template_text(case['template'])} }} WHERE {body}"
    flag = case.get("flag", True)
    old = sparql_mod.SPARQL_DEFAULT_GRAPH_UNION
    sparql_mod.SPARQL_DEFAULT_GRAPH_UNION = flag
    try:
        with warnings.catch_warnings():
            warnings.simplefilter("ignore")
            def ask():
                r = target.query(q)
                if form == "select":
                    return ("select", [str(v) for v in (r.vars or [])], list(r.bindings))
                if form == "ask":
                    return ("ask", r.askAnswer)
                return ("graph", {tuple(key(x) for x in t) for t in r.graph})
            res = sut(ask)
    finally:
        sparql_mod.SPARQL_DEFAULT_GRAPH_UNION = old
    nops = gs.n_operators(pat)
    ops = sorted({n for n in ("join", "opt", "union", "minus", "filter", "bind", "values", "sub", "graph", "exists") if f"'{n}'" in repr(pat) or f'"{n}"' in repr(pat)})
    tag = "+".join(ops[:4]) or "bgp"
    if is_err(res):
        out.fail(("query-raises", res.kind, res.site), f"{q}\n data={case['data']} kind={case['kind']}: {res!r}")
        return out
    if form == "select":
        scope = ref.in_scope(pat)
        proj = set(vars_) if vars_ is not None else scope
        want = ref.multiset(sols, proj)
        got = sol_counter(res[2], proj)
        if vars_ is not None and res[1] != list(vars_):
            out.fail(("vars-differ",), f"{q}: vars {res[1]} expected {vars_}")
            return out
        if vars_ is None and not set(res[1]) >= {v for m in sols for v in m if v in scope}:
            out.fail(("select-star-vars-missing",), f"{q}: vars {res[1]}; in scope {sorted(scope)}")
            return out
        if got != want:
            missing, extra = want - got, got - want
            kind = "missing+extra" if missing and extra else ("missing" if missing else "extra")
            if set(missing) == set(extra) or (not missing and set(extra) <= set(want)) or (not extra and set(missing) <= set(got)):
                kind = "multiplicity"
            out.fail(("solutions-differ", kind, tag), f"{q}\n data={case['data']} kind={case['kind']} flag={flag}\n missing={list(missing.items())[:4]}\n extra={list(extra.items())[:4]}")
            return out
    elif form == "ask":
        if res[1] != bool(sols):
            out.fail(("ask-differs", tag), f"{q}\n data={case['data']} kind={case['kind']}: {res[1]} expected {bool(sols)}")
            return out
    else:
        want = construct_ref(case["template"], sols)
        if not iso.isomorphic(want, res[1]):
            lit_subj = any(t[0][0] == "l" for t in res[1])
            out.fail(("construct-differs", "literal-subject" if lit_subj else "other", tag), f"{q}\n data={case['data']}\n got={sorted(res[1], key=repr)[:6]}\n want={sorted(want, key=repr)[:6]}")
            return out
    out.nontrivial = nops >= 2 and bool(sols)
    out.cls("form:" + form, "kind:" + case["kind"], "ops:%d" % min(nops, 6), "empty" if not sols else "nonempty", *["op:" + o for o in ops])
    return out


@st.composite
def cases(draw, tier):
    kind = draw(st.sampled_from(["graph", "dataset", "dataset-union"]))
    depth = 5 if tier == "thorough" else 3
    data = draw(gs.datasets())
    pool = data["default"] + (data["g1"] + data["g2"] if kind != "graph" else [])
    pat = draw(gs.patterns(draw(st.integers(2, depth)), dataset=(kind != "graph"), pool=pool))
    form = draw(st.sampled_from(["select", "select", "select", "ask", "construct"]))
    case = {"kind": kind, "pattern": pat, "form": form, "data": data, "flag": True if kind != "dataset" else draw(st.booleans())}
    scope = sorted(ref.in_scope(pat))
    if form == "select" and scope and draw(st.booleans()):
        case["vars"] = draw(st.lists(st.sampled_from(scope + ["e"]), min_size=1, max_size=3, unique=True))
    else:
        case["vars"] = None
    if form == "construct":
        tv = st.one_of(st.sampled_from(scope or ["a"]).map(lambda v: ["v", v]), st.sampled_from(gs.NODES[:3]), st.sampled_from([["tb", "x"], ["tb", "y"]]))
        tp = st.one_of(st.sampled_from(scope or ["a"]).map(lambda v: ["v", v]), st.sampled_from(gs.PREDS))
        to = st.one_of(tv, st.sampled_from(gs.LITS[:3]))
        case["template"] = draw(st.lists(st.tuples(tv, tp, to).map(list), min_size=1, max_size=3))
    return case


SUBCHECKS = [Sub("patterns", lambda tier: cases(tier), run, {"quick": 16000, "thorough": 400000})]
