"""C10 — SPARQL Update operations transform the dataset as SPARQL 1.1 Update defines.

Generated update requests (1-4 operations: INSERT DATA, DELETE DATA, DELETE WHERE, DELETE/INSERT..WHERE with WITH / USING / GRAPH templates,
CLEAR, DROP, ADD, MOVE, COPY) x generated datasets x 8 configurations (Graph, a subclass of Graph, ConjunctiveGraph and Dataset(default_union on/off), each with
the engine switch SPARQL_DEFAULT_GRAPH_UNION on/off) are rendered to text for `.update()` and interpreted by an independent reference
transformer over {graph name -> set of triples}. Compared: all quads in the store afterwards, up to renaming of blank nodes created by the
request (blank nodes of the pre-state are fixed)."""
from __future__ import annotations

import warnings

from hypothesis import strategies as st

import rdflib.plugins.sparql as sparql_mod
from rdflib import ConjunctiveGraph, Dataset, Graph, URIRef

from pbt.codec import T, key
from pbt.core import K, Out, Sub, is_err, sut
from pbt.gen import sparql as gs
from pbt.oracle import iso
from pbt.oracle import sparqlref as ref
from pbt.props import c04

RULE = ("requests of 1-4 operations over a default graph and up to two named graphs of 0-6 triples each (plus a graph name that is absent); WHERE "
        "patterns derived from the data (BGP, GRAPH with constant or variable name, OPTIONAL, UNION, FILTER, BIND(?o+1) over a numeric chain so that "
        "one solution's insertion is another's deletion); templates with GRAPH blocks (constant / variable name), blank nodes, variables that are "
        "unbound in some solutions or bound to literals in subject / predicate position; CLEAR/DROP DEFAULT|NAMED|ALL|GRAPH; ADD/MOVE/COPY (a Dataset's default graph also by its own name) incl. "
        "source = target and absent graphs; applied through Graph, ConjunctiveGraph and Dataset(default_union on/off) with "
        "SPARQL_DEFAULT_GRAPH_UNION on/off. Non-trivial = the request changes the dataset and (touches >=2 graphs, or deleted and inserted "
        "instantiations overlap, or a template triple is skipped); distinct by SHA-1 of the case JSON.")
ASSUMPTIONS = ["the store does not record empty graphs: an absent graph is an empty graph (SPARQL 1.1 Update 3.2 permits this), so CLEAR/DROP/ADD/MOVE/"
               "COPY on an absent graph succeed; only quads are compared, not the set of graph names",
               "SPARQL_LOAD_GRAPHS is False so that USING denotes graphs of the dataset (True would fetch the IRI; there is no network)",
               "LOAD and CREATE are outside the listed operations",
               "WHERE patterns in the classes of C04's recorded findings are not used (they are C04's subject)"]

GNAMES = ["urn:g1", "urn:g2", "urn:g3"]  # g3 is never populated by the generator's data
CONFIGS = ["graph", "cg", "ds", "ds-union"]


class SubGraph(Graph):
    """a user's subclass of Graph (config "graph-sub"): behaves as a Graph in every respect"""


# ---------------------------------------------------------------- SUT side
def build(case):
    cfg = case["config"]
    d = case["data"]
    with warnings.catch_warnings():
        warnings.simplefilter("ignore")
        if cfg in ("graph", "graph-sub"):
            g = Graph() if cfg == "graph" else SubGraph()
            for t in d["default"]:
                g.add(tuple(T(x) for x in t))
            return g
        ds = ConjunctiveGraph() if cfg == "cg" else Dataset(default_union=(cfg == "ds-union"))
        for t in d["default"]:
            ds.default_context.add(tuple(T(x) for x in t))
        for name in ("g1", "g2"):
            for t in d.get(name) or []:
                ds.get_context(URIRef("urn:" + name)).add(tuple(T(x) for x in t))
        return ds


def store_quads(target):
    """every (s, p, o, graph name) the store holds; the default graph's name is None"""
    if not isinstance(target, ConjunctiveGraph):
        return {(key(s), key(p), key(o), None) for s, p, o in target}
    default_id = target.default_context.identifier
    out = set()
    for (s, p, o), ctxs in target.store.triples((None, None, None), None):
        for c in ctxs:
            ident = getattr(c, "identifier", c)
            out.add((key(s), key(p), key(o), None if ident == default_id else key(ident)))
    return out


# ---------------------------------------------------------------- rendering
def tt(x, idx):
    if x[0] == "tb":
        # a blank node label may be used in one operation of a request only (SPARQL 1.1 grammar note on blank node labels)
        return f"_:{x[1]}{idx}"
    return gs.term_text(x)


def tps_text(tps, idx):
    return " ".join(f"{tt(s, idx)} {tt(p, idx)} {tt(o, idx)} ." for s, p, o in tps)


def quads_text(triples, blocks, idx=0):
    s = tps_text(triples, idx)
    for gterm, tps in blocks:
        s += f" GRAPH {tt(gterm, idx)} {{ {tps_text(tps, idx)} }}"
    return s.strip()


# the default graph of a Dataset has a name of its own in RDFLib; a request may use it like any graph name
DEFAULT_BY_NAME = "urn:x-rdflib:default"


def gref(x):
    return x if x in ("DEFAULT", "NAMED", "ALL") else f"GRAPH <{x}>"


def gref2(x):
    return "DEFAULT" if x == "DEFAULT" else f"<{x}>"


def op_text(op, idx=0):
    k = op[0]
    if k == "insertdata":
        return f"INSERT DATA {{ {quads_text(op[1], op[2], idx)} }}"
    if k == "deletedata":
        return f"DELETE DATA {{ {quads_text(op[1], op[2], idx)} }}"
    if k == "deletewhere":
        return f"DELETE WHERE {{ {quads_text(op[1], op[2], idx)} }}"
    if k == "modify":
        _, with_, dele, ins, using, named, pat = op
        s = f"WITH <{with_}> " if with_ else ""
        if dele is not None:
            s += f"DELETE {{ {quads_text(dele[0], dele[1], idx)} }} "
        if ins is not None:
            s += f"INSERT {{ {quads_text(ins[0], ins[1], idx)} }} "
        for u in using:
            s += f"USING <{u}> "
        for u in named:
            s += f"USING NAMED <{u}> "
        return s + "WHERE " + gs.group_text(pat)
    if k in ("clear", "drop"):
        return f"{k.upper()} {'SILENT ' if op[1] else ''}{gref(op[2])}"
    if k in ("add", "move", "copy"):
        return f"{k.upper()} {'SILENT ' if op[1] else ''}{gref2(op[2])} TO {gref2(op[3])}"
    raise ValueError(op)


# ---------------------------------------------------------------- reference transformer
class State:
    def __init__(self, data):
        self.default = {tuple(ref.jterm(x) for x in t) for t in data["default"]}
        self.named = {}
        for name in ("g1", "g2"):
            if data.get(name):
                self.named[("u", "urn:" + name)] = {tuple(ref.jterm(x) for x in t) for t in data[name]}

    def graph(self, name):
        """name: None (default) or a term key"""
        if name is None:
            return self.default
        return self.named.setdefault(name, set())

    def quads(self):
        out = {(s, p, o, None) for s, p, o in self.default}
        for n, g in self.named.items():
            out |= {(s, p, o, n) for s, p, o in g}
        return out

    def refds(self):
        return {"default": set(self.default), "named": {n: set(g) for n, g in self.named.items() if g}}


def legal(t):
    s, p, o = t
    return s[0] in ("u", "b") and p[0] == "u"


def instantiate(tps, mu, fresh):
    """-> (set of triples, number of skipped template triples)"""
    out, skipped = set(), 0
    for tp in tps:
        t = []
        for x in tp:
            if ref.is_var(x):
                v = mu.get(x[1])
            elif x[0] == "tb":
                v = ("b", fresh + x[1])
            else:
                v = ref.jterm(x)
            t.append(v)
        if any(v is None for v in t) or not legal(t):
            skipped += 1
            continue
        out.add(tuple(t))
    return out, skipped


def instantiate_quads(tmpl, mu, fresh, default_name):
    """-> {graph name: triples}, skipped"""
    res, skipped = {}, 0
    tr, sk = instantiate(tmpl[0], mu, fresh)
    skipped += sk
    res.setdefault(default_name, set()).update(tr)
    for gterm, tps in tmpl[1]:
        if ref.is_var(gterm):
            gname = mu.get(gterm[1])
        else:
            gname = ref.jterm(gterm)
        if gname is not None and gname[0] == "b":
            raise ref.Grey("template graph name bound to a blank node (RDFLib datasets may name graphs by blank nodes, SPARQL cannot)")
        if gname is None or gname[0] != "u":
            skipped += len(tps)
            continue
        tr, sk = instantiate(tps, mu, fresh)
        skipped += sk
        res.setdefault(gname, set()).update(tr)
    return res, skipped


def name_of(x):
    return None if x in ("DEFAULT", DEFAULT_BY_NAME) else ("u", x)


def apply_op(state, op, idx, union, info):
    k = op[0]
    if k in ("insertdata", "deletedata"):
        quads, _ = instantiate_quads((op[1], op[2]), {}, f"data{idx}-", None)
        for gname, trs in quads.items():
            if k == "insertdata":
                state.graph(gname).update(trs)
            else:
                state.graph(gname).difference_update(trs)
        info["graphs"] |= {g for g, trs in quads.items() if trs}
        return
    if k == "deletewhere":
        # the quad pattern is both the WHERE clause and the DELETE template
        pat = ["bgp", op[1]]
        for gterm, tps in op[2]:
            pat = ["join", pat, ["graph", gterm, ["bgp", tps]]]
        sols = ref.eval_pattern(pat, ref.Env(state.refds(), union))
        dels = {}
        for mu in sols:
            q, sk = instantiate_quads((op[1], op[2]), mu, "", None)
            info["skipped"] += sk
            for g, trs in q.items():
                dels.setdefault(g, set()).update(trs)
        for g, trs in dels.items():
            state.graph(g).difference_update(trs)
        info["graphs"] |= {g for g, trs in dels.items() if trs}
        return
    if k == "modify":
        _, with_, dele, ins, using, named, pat = op
        ds = state.refds()
        env_union = union
        if using or named:
            # the query dataset is exactly what USING / USING NAMED name
            default = set()
            for u in using:
                default |= state.named.get(("u", u), set())
            ds = {"default": default, "named": {("u", u): set(state.named.get(("u", u), set())) for u in named if state.named.get(("u", u))}}
            env_union = False
        elif with_:
            ds = {"default": set(state.named.get(("u", with_), set())), "named": ds["named"]}
            env_union = False
        sols = ref.eval_pattern(pat, ref.Env(ds, env_union))
        target = ("u", with_) if with_ else None
        dels, adds = {}, {}
        for i, mu in enumerate(sols):
            if dele is not None:
                q, sk = instantiate_quads(dele, mu, "", target)
                info["skipped"] += sk
                for g, trs in q.items():
                    dels.setdefault(g, set()).update(trs)
            if ins is not None:
                q, sk = instantiate_quads(ins, mu, f"op{idx}-sol{i}-", target)
                info["skipped"] += sk
                for g, trs in q.items():
                    adds.setdefault(g, set()).update(trs)
        if any(dels.get(g, set()) & adds.get(g, set()) for g in dels):
            info["overlap"] = True
        for g, trs in dels.items():
            state.graph(g).difference_update(trs)
        for g, trs in adds.items():
            state.graph(g).update(trs)
        info["graphs"] |= {g for g, trs in list(dels.items()) + list(adds.items()) if trs}
        return
    if k in ("clear", "drop"):
        tgt = op[2]
        if tgt in ("DEFAULT", "ALL"):
            state.default.clear()
            info["graphs"].add(None)
        if tgt in ("NAMED", "ALL"):
            for n in state.named:
                state.named[n] = set()
                info["graphs"].add(n)
        if tgt not in ("DEFAULT", "NAMED", "ALL"):
            state.graph(name_of(tgt)).clear()
            info["graphs"].add(name_of(tgt))
        return
    if k in ("add", "move", "copy"):
        src, dst = name_of(op[2]), name_of(op[3])
        info["graphs"] |= {src, dst}
        if src == dst:
            info["same"] = True
            return
        s, d = state.graph(src), state.graph(dst)
        if k in ("move", "copy"):
            d.clear()
        d.update(s)
        if k == "move":
            s.clear()
        return
    raise ValueError(op)


# ---------------------------------------------------------------- the check
def op_patterns(op):
    if op[0] == "modify":
        yield op[6]


def run(case):
    out = Out()
    ops = case["ops"]
    cfg, flag = case["config"], case["flag"]
    if not ops:
        return out
    for op in ops:
        for pat in op_patterns(op):
            if not c04.valid(pat):
                out.cls("invalid-shape")
                return out
            if (c04.contains(pat, "values") and (c04.contains(pat, "opt") or c04.contains(pat, "bind"))) or c04.filter_out_of_scope(pat) or \
                    c04.graph_var_over_values(pat) or c04.pushes_into_scoped_operator(pat) or c04.subselect_hides_shared_var(pat):
                out.cls("c04-finding-class-skipped")
                return out
    if cfg in ("graph", "graph-sub") and any(needs_dataset(op) for op in ops):
        out.cls("invalid-shape")
        return out
    for kf, in_class in known_classes(case):
        if K.skip(kf, in_class, out):
            return out
    union = (cfg == "cg" and flag) or (cfg == "ds-union" and flag)
    state = State(case["data"])
    before = state.quads()
    info = {"graphs": set(), "skipped": 0, "overlap": False, "same": False}
    try:
        for i, op in enumerate(ops):
            apply_op(state, op, i, union, info)
    except ref.Grey as g:
        out.cls("grey:" + str(g)[:40])
        return out
    want = state.quads()
    text = " ;\n".join(op_text(op, i) for i, op in enumerate(ops))
    target = build(case)
    old = (sparql_mod.SPARQL_DEFAULT_GRAPH_UNION, sparql_mod.SPARQL_LOAD_GRAPHS)
    sparql_mod.SPARQL_DEFAULT_GRAPH_UNION, sparql_mod.SPARQL_LOAD_GRAPHS = flag, False
    try:
        with warnings.catch_warnings():
            warnings.simplefilter("ignore")
            res = sut(target.update, text)
    finally:
        sparql_mod.SPARQL_DEFAULT_GRAPH_UNION, sparql_mod.SPARQL_LOAD_GRAPHS = old
    kinds = "+".join(sorted({op[0] for op in ops}))
    where = f"config={cfg} flag={flag}\n data={ {k: v for k, v in case['data'].items() if v} }"
    if is_err(res):
        out.fail(("update-raises", res.kind, ops[0][0] if len(ops) == 1 else "sequence", res.site), f"{text}\n {where}: {res!r}")
        return out
    got = store_quads(target)
    fixed = {x for q in before for x in q[:3] if iso.is_b(x)}
    try:
        same = iso.isomorphic(want, got, fixed=fixed)
    except iso.IsoBudget:
        out.cls("iso-budget")
        return out
    if not same:
        gw, gg = {q for q in want if not any(iso.is_b(x) for x in q)}, {q for q in got if not any(iso.is_b(x) for x in q)}
        missing, extra = gw - gg, gg - gw
        if missing or extra:
            gm = sorted({("default" if q[3] is None else q[3][1]) for q in missing | extra})
            kind = "missing+extra" if missing and extra else ("missing" if missing else "extra")
        else:
            gm, kind = [], "blank-node-structure"
        out.fail(("dataset-differs", kinds if len(ops) == 1 else "sequence", kind, "union-read" if union else "default-read", cfg),
                 f"{text}\n {where}\n missing={sorted(missing, key=repr)[:4]}\n extra={sorted(extra, key=repr)[:4]}\n in graphs {gm}\n"
                 f" expected-only={sorted(want - got, key=repr)[:5]}\n got-only={sorted(got - want, key=repr)[:5]}")
        return out
    out.nontrivial = want != before and (len(info["graphs"]) >= 2 or info["overlap"] or info["skipped"] > 0)
    out.cls("config:" + cfg, "flag:%s" % flag, *["op:" + op[0] for op in ops], "ops:%d" % len(ops), *(["overlap"] if info["overlap"] else []),
            *(["skipped-template-triples"] if info["skipped"] else []), *(["source=target"] if info["same"] else []),
            "graphs-touched:%d" % min(len(info["graphs"]), 3), "changed" if want != before else "unchanged",
            *(["with"] if any(op[0] == "modify" and op[1] for op in ops) else []), *(["using"] if any(op[0] == "modify" and (op[4] or op[5]) for op in ops) else []),
            *(["fresh-bnodes"] if any(iso.is_b(x) and x not in fixed for q in want for x in q[:3]) else []))
    return out


def needs_dataset(op):
    k = op[0]
    if k in ("insertdata", "deletedata", "deletewhere"):
        return bool(op[2])
    if k == "modify":
        return bool(op[1] or op[4] or op[5] or (op[2] and op[2][1]) or (op[3] and op[3][1]) or c04.contains(op[6], "graph"))
    if k in ("clear", "drop"):
        return op[2] not in ("DEFAULT", "NAMED", "ALL")  # (a single graph is all there is and has no named graphs)
    return True


def known_classes(case):
    return []


# ---------------------------------------------------------------- generator
def ground_terms(pool_nodes):
    return st.sampled_from(pool_nodes)


@st.composite
def template_tps(draw, scope, allow_bnodes, pool):
    """template triples: generalised from data triples / variables of the WHERE clause / constants / template blank nodes"""
    n = draw(st.integers(1, 2))
    tps = []
    for _ in range(n):
        def pos(kind):
            choices = []
            if scope:
                choices += [st.sampled_from(scope).map(lambda v: ["v", v])] * 3
            choices.append(st.sampled_from(gs.NODES[:3]))
            if kind == "o":
                choices.append(st.sampled_from(gs.LITS[:4]))
            if kind == "p":
                choices = [st.sampled_from(gs.PREDS), st.sampled_from(gs.PREDS)] + ([st.sampled_from(scope).map(lambda v: ["v", v])] if scope else [])
            if allow_bnodes and kind != "p":
                choices.append(st.sampled_from([["tb", "x"], ["tb", "y"], ["tb", "n"]]))
            return draw(st.one_of(*choices))
        tps.append([pos("s"), pos("p"), pos("o")])
    return tps


@st.composite
def templates(draw, scope, allow_bnodes, pool, dataset):
    triples = draw(template_tps(scope, allow_bnodes, pool)) if draw(st.integers(0, 3)) or not dataset else []
    blocks = []
    if dataset and (not triples or draw(st.integers(0, 2)) == 0):
        for _ in range(draw(st.integers(1, 2))):
            gterm = draw(st.one_of(st.sampled_from(GNAMES).map(lambda n: ["u", n]), st.sampled_from(GNAMES[:2]).map(lambda n: ["u", n]),
                                   *([st.sampled_from(scope).map(lambda v: ["v", v])] if scope else [])))
            blocks.append([gterm, draw(template_tps(scope, allow_bnodes, pool))])
    return [triples, blocks]


@st.composite
def where_patterns(draw, data, dataset):
    pool = data["default"] + (data["g1"] + data["g2"] if dataset else [])
    kind = draw(st.sampled_from(["bgp", "bgp", "chain", "graph", "graph-var", "opt", "union", "filter", "general"] if dataset else
                                ["bgp", "bgp", "chain", "opt", "union", "filter", "general"]))
    if not pool:
        kind = "bgp"
    b = draw(gs.bgp(pool=pool or None))
    if kind == "bgp":
        return b
    if kind == "chain":
        # ?s p ?o . BIND(?o+1 AS ?n): with data 1,2,3 one solution's insertion is another solution's deletion
        p = draw(st.sampled_from(gs.PREDS))
        return ["bind", ["bgp", [[["v", "a"], p, ["v", "b"]]]], ["+", ["var", "b"], ["const", gs.LITS[0]]], "c"]
    if kind == "graph":
        return ["graph", ["u", draw(st.sampled_from(GNAMES))], b]
    if kind == "graph-var":
        g = ["graph", ["v", "e"], draw(gs.bgp(min_size=1, pool=pool))]
        return g if draw(st.booleans()) else ["join", b, g]
    if kind == "opt":
        return ["opt", b, draw(gs.bgp(pool=pool)), None]
    if kind == "union":
        return ["union", b, draw(gs.bgp(pool=pool))]
    if kind == "filter":
        return ["filter", draw(gs.exprs(1)), b]
    return draw(gs.patterns(1, dataset=dataset, pool=pool))


@st.composite
def operations(draw, data, dataset, by_name=False):
    kinds = ["insertdata", "deletedata", "deletewhere", "modify", "modify", "modify", "clear"]
    if dataset:
        kinds += ["drop", "add", "move", "copy", "clear"]
    k = draw(st.sampled_from(kinds))
    pool = data["default"] + data["g1"] + data["g2"]
    gname = st.sampled_from(GNAMES)
    if k in ("insertdata", "deletedata"):
        def ground(allow_b):
            s = st.sampled_from(gs.NODES[:3] + ([["tb", "x"], ["tb", "n"]] if allow_b else []))
            o = st.one_of(st.sampled_from(gs.NODES[:3] + ([["tb", "x"], ["tb", "n"]] if allow_b else [])), st.sampled_from(gs.LITS[:5]))
            fresh = st.tuples(s, st.sampled_from(gs.PREDS), o).map(list)
            ground_pool = [t for t in pool if all(x[0] != "b" for x in t)]
            return st.lists(st.one_of(fresh, st.sampled_from(ground_pool)) if ground_pool else fresh, min_size=1, max_size=3)
        allow_b = k == "insertdata"
        triples = draw(ground(allow_b)) if draw(st.integers(0, 3)) or not dataset else []
        blocks = []
        if dataset and (not triples or draw(st.integers(0, 2)) == 0):
            for _ in range(draw(st.integers(1, 2))):
                blocks.append([["u", draw(gname)], draw(ground(allow_b))])
        return [k, triples, blocks]
    if k == "deletewhere":
        triples = draw(gs.bgp(pool=pool or None))[1] if draw(st.integers(0, 3)) or not dataset else []
        blocks = []
        if dataset and (not triples or draw(st.integers(0, 2)) == 0):
            gterm = draw(st.one_of(gname.map(lambda n: ["u", n]), st.just(["v", "e"])))
            blocks.append([gterm, draw(gs.bgp(min_size=1, pool=pool or None))[1]])
        return [k, triples, blocks]
    if k == "modify":
        pat = draw(where_patterns(data, dataset))
        scope = sorted(ref.in_scope(pat))
        which = draw(st.sampled_from(["both", "both", "delete", "insert"]))
        dele = draw(templates(scope, False, pool, dataset)) if which in ("both", "delete") else None
        ins = draw(templates(scope, True, pool, dataset)) if which in ("both", "insert") else None
        if pat[0] == "bind" and pat[3] == "c" and pat[1][0] == "bgp" and len(pat[1][1]) == 1 and pat[1][1][0][0] == ["v", "a"] and \
                pat[1][1][0][2] == ["v", "b"] and draw(st.integers(0, 3)):
            # shift along the chain: what one solution inserts another solution deletes
            pr = pat[1][1][0][1]
            dele, ins = [[[["v", "a"], pr, ["v", "b"]]], []], [[[["v", "a"], pr, ["v", "c"]]], []]
            if draw(st.booleans()):
                dele, ins = ins, dele
        elif pat[0] == "bgp" and len(pat[1]) == 1 and which == "both" and draw(st.integers(0, 3)) == 0:
            # reverse every matched triple: symmetric pairs are deleted and inserted by different solutions
            tp = pat[1][0]
            dele, ins = [[tp], []], [[[tp[2], tp[1], tp[0]]], []]
        with_ = draw(gname) if dataset and draw(st.integers(0, 3)) == 0 else None
        using, named = [], []
        if dataset and draw(st.integers(0, 4)) == 0:
            using = draw(st.lists(gname, min_size=0, max_size=2, unique=True))
            named = draw(st.lists(gname, min_size=0 if using else 1, max_size=2, unique=True))
        return [k, with_, dele, ins, using, named, pat]
    if k in ("clear", "drop"):
        return [k, draw(st.booleans()), draw(st.sampled_from(["DEFAULT", "NAMED", "ALL"] + GNAMES + ([DEFAULT_BY_NAME] if by_name else []))) if dataset else draw(st.sampled_from(["DEFAULT", "DEFAULT", "NAMED", "ALL"]))]
    # (the default graph now and then by its own name: the same graph as DEFAULT)
    names = ["DEFAULT"] + GNAMES + (["DEFAULT", DEFAULT_BY_NAME] if by_name else [])
    src = draw(st.sampled_from(names))
    dst = draw(st.sampled_from(names))
    return [k, draw(st.booleans()), src, dst]


@st.composite
def cases(draw, tier):
    cfg = draw(st.sampled_from(CONFIGS + ["ds", "cg", "graph-sub"]))
    dataset = cfg not in ("graph", "graph-sub")
    data = {"default": draw(gs.data_triples().map(lambda x: x[:6])), "g1": draw(gs.data_triples().map(lambda x: x[:5])) if dataset else [],
            "g2": draw(st.one_of(st.just([]), gs.data_triples().map(lambda x: x[:4]))) if dataset else []}
    if draw(st.integers(0, 3)) == 0:
        # numeric chain in one graph: a p 1, a p 2, a p 3
        p = draw(st.sampled_from(gs.PREDS))
        s = draw(st.sampled_from(gs.NODES))
        chain = [[s, p, gs.LITS[0]], [s, p, gs.LITS[1]], [s, p, gs.LITS[8]]]
        where = draw(st.sampled_from(["default", "g1"] if dataset else ["default"]))
        data[where] = [t for t in data[where] if t not in chain][:3] + chain
    ops = draw(st.lists(operations(data, dataset, by_name=cfg in ("ds", "ds-union")), min_size=1, max_size=4 if tier == "thorough" else 3))
    return {"config": cfg, "flag": draw(st.booleans()), "data": data, "ops": ops}


SUBCHECKS = [Sub("requests", lambda tier: cases(tier), run, {"quick": 16000, "thorough": 250000})]
