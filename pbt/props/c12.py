"""C12 — Parsing only adds, and blank nodes of separate documents never merge.

Histories of 1-4 parse() calls into one Graph / Dataset that already holds generated content. Documents are written by small
harness-side writers in nt, nquads, turtle, n3, trig, xml, trix, json-ld, hext with blank-node labels drawn from a 3-label pool that is
reused across documents and includes labels equal to the id of a blank node already in the target. After each call: old content is
still there (same terms, same graphs); what was added is the document with ALL its blank nodes renamed injectively to nodes that did
not occur before (RDF merge); equal labels inside one document (also across its named graphs) are one node."""
from __future__ import annotations

import json
import warnings

from hypothesis import strategies as st

from rdflib import BNode, Dataset, Graph, Literal, URIRef
from rdflib.graph import DATASET_DEFAULT_GRAPH_ID

from pbt.codec import T, key
from pbt.core import K, Out, Sub, is_err, sut
from pbt.gen.util import sized_lists
from pbt.oracle import iso

RULE = ("histories of 1-4 documents (any mix of 9 syntaxes) parsed into a Graph, a Dataset or one named graph of a Dataset with pre-existing content incl. blank nodes; document "
        "blank-node labels from {a, b, N0a1b...(looks like an rdflib id), <id of an existing node>}, reused between and within documents and "
        "across named graphs of one document; up to two nodes per document written without a label ([ ], node element without id, node object "
        "without @id) first in the text; RDF/XML node elements under alternating xml:base. Non-trivial = a label of the current document "
        "already occurs in the target (from an earlier document or as existing BNode id); distinct by SHA-1 of the case JSON.")
ASSUMPTIONS = ["documents use simple terms (IRIs, labelled and anonymous blank nodes, plain literals): spelling variety is C05's subject",
               "triple syntaxes parsed into a Dataset land in its default graph",
               "with a named graph of a Dataset as the sink, that graph stands for the document's default graph (as RDFLib's N-Quads and TriG "
               "readers do); the document's named graphs keep their names"]

DEF = ("d",)
LABELS = ["a", "b", "N0a1b2c3d4e5f60718293a4b5c6d7e8f9", "x1"]
IRIS = ["http://ex.org/s", "http://ex.org/o", "urn:t"]
PREDS = ["http://ex.org/p", "http://ex.org/q"]
GNAMES = [None, "http://ex.org/g1", "_:a", "_:g"]
TRIPLE_FMTS = ["nt", "turtle", "n3", "xml"]
QUAD_FMTS = ["nquads", "trig", "trix", "json-ld", "hext"]


# ---------------------------------------------------------------- tiny writers. term: ["u", iri] | ["b", label] | ["l", text]
def nt_term(t):
    if t[0] == "u":
        return f"<{t[1]}>"
    if t[0] == "b":
        return f"_:{t[1]}"
    return json.dumps(t[1], ensure_ascii=False)


def gname_term(g):
    return None if g is None else (["b", g[2:]] if g.startswith("_:") else ["u", g])


ANON_FMTS = ("turtle", "n3", "trig", "xml", "json-ld")


def anon_quads(anon, quad_fmt):
    """the statements of the anonymous nodes of a document, the k-th node standing as the label anon<k> (no other label of the pool
    looks like that): what the document says whichever way the node is written"""
    out = []
    for k, a in enumerate(anon):
        me = ["b", f"anon{k}"]
        g = a["g"] if quad_fmt else None
        for p, o in a["props"]:
            out.append([me, p, o, g])
        if a["ref"]:
            out.append([a["ref"][0], a["ref"][1], me, g])
    return out


def write_doc(fmt, quads, anon=(), xmlbase=False, formulas=()):
    """quads: list of [s, p, o, gname]; triple formats ignore gname (caller passes None). anon: nodes written without a label where the
    syntax has a form for that ([ ... ], a node element without rdf:about / rdf:nodeID, a node object without @id), first in the
    document, so that documents of one shape have them at the same line and column; elsewhere they are the labels anon<k>."""
    if fmt not in ANON_FMTS:
        quads = anon_quads(anon, fmt in QUAD_FMTS) + quads
        anon = ()

    def bracket(a):
        body = " ; ".join(f"{nt_term(p)} {nt_term(o)}" for p, o in a["props"])
        return f"[ {body} ]" if not a["ref"] else f"{nt_term(a['ref'][0])} {nt_term(a['ref'][1])} [ {body} ]"
    if fmt in ("nt", "turtle", "n3"):
        # (Notation3 only: quoted formulae, each a node of its own that stands as the subject of one statement)
        quoted = "".join(f"{{ {nt_term(f[0][0])} {nt_term(f[0][1])} {nt_term(f[0][2])} }} {nt_term(f[1])} {nt_term(f[2])} .\n" for f in formulas) if fmt == "n3" else ""
        return "".join(bracket(a) + " .\n" for a in anon) + quoted + "".join(f"{nt_term(s)} {nt_term(p)} {nt_term(o)} .\n" for s, p, o, g in quads)
    if fmt == "nquads":
        return "".join(f"{nt_term(s)} {nt_term(p)} {nt_term(o)}" + (f" {nt_term(gname_term(g))}" if g else "") + " .\n" for s, p, o, g in quads)
    if fmt == "trig":
        out = []
        for g in dict.fromkeys([a["g"] for a in anon] + [q[3] for q in quads]):
            body = "".join(f"  {bracket(a)} .\n" for a in anon if a["g"] == g)
            body += "".join(f"  {nt_term(s)} {nt_term(p)} {nt_term(o)} .\n" for s, p, o, gg in quads if gg == g)
            out.append(("{\n" if g is None else f"{nt_term(gname_term(g))} {{\n") + body + "}\n")
        return "".join(out)
    if fmt == "xml":
        def node_attr(t, about="rdf:about"):
            return f'{about}="{t[1]}"' if t[0] == "u" else f'rdf:nodeID="{t[1]}"'
        rows = []

        def prop(p, o):
            ns, local = p[1].rsplit("/", 1)
            if o[0] == "l":
                return f'<x:{local} xmlns:x="{ns}/">{o[1]}</x:{local}>'
            return f'<x:{local} xmlns:x="{ns}/" {node_attr(o, "rdf:resource")}/>'
        for a in anon:
            el = "<rdf:Description>" + "".join(prop(p, o) for p, o in a["props"]) + "</rdf:Description>"
            if a["ref"]:
                ns, local = a["ref"][1][1].rsplit("/", 1)
                el = f'<rdf:Description {node_attr(a["ref"][0])}><x:{local} xmlns:x="{ns}/">{el}</x:{local}></rdf:Description>'
            rows.append(el)
        for n, (s, p, o, g) in enumerate(quads):
            # xml:base scopes relative IRI references, not rdf:nodeID: the same label under two bases is one node
            base = f' xml:base="http://ex.org/base{n % 2}/"' if xmlbase else ""
            rows.append(f"<rdf:Description {node_attr(s)}{base}>{prop(p, o)}</rdf:Description>")
        return '<?xml version="1.0"?>\n<rdf:RDF xmlns:rdf="http://www.w3.org/1999/02/22-rdf-syntax-ns#">\n' + "\n".join(rows) + "\n</rdf:RDF>\n"
    if fmt == "trix":
        def tx(t):
            return f"<uri>{t[1]}</uri>" if t[0] == "u" else (f"<id>{t[1]}</id>" if t[0] == "b" else f"<plainLiteral>{t[1]}</plainLiteral>")
        out = ['<TriX xmlns="http://www.w3.org/2004/03/trix/trix-1/">']
        for g in dict.fromkeys(q[3] for q in quads):
            out.append("<graph>")
            if g is not None:
                out.append(tx(gname_term(g)))
            for s, p, o, gg in quads:
                if gg == g:
                    out.append(f"<triple>{tx(s)}{tx(p)}{tx(o)}</triple>")
            out.append("</graph>")
        out.append("</TriX>")
        return "\n".join(out)
    if fmt == "json-ld":
        def jid(t):
            return t[1] if t[0] == "u" else "_:" + t[1]
        def node(s, p, o):
            return {"@id": jid(s), p[1]: [{"@value": o[1]} if o[0] == "l" else {"@id": jid(o)}]}
        def val(o):
            return {"@value": o[1]} if o[0] == "l" else {"@id": jid(o)}

        def anode(a):
            d = {}
            for p, o in a["props"]:
                d.setdefault(p[1], []).append(val(o))
            return d if not a["ref"] else {"@id": jid(a["ref"][0]), a["ref"][1][1]: [d]}
        top = []
        for g in dict.fromkeys([a["g"] for a in anon] + [q[3] for q in quads]):
            nodes = [anode(a) for a in anon if a["g"] == g] + [node(s, p, o) for s, p, o, gg in quads if gg == g]
            if g is None:
                top.extend(nodes)
            else:
                top.append({"@id": g, "@graph": nodes})
        return json.dumps(top)
    if fmt == "hext":
        lines = []
        for s, p, o, g in quads:
            def hv(t):
                return t[1] if t[0] == "u" else "_:" + t[1]
            if o[0] == "l":
                row = [hv(s), p[1], o[1], "http://www.w3.org/2001/XMLSchema#string", "", g or ""]
            else:
                row = [hv(s), p[1], hv(o), "globalId" if o[0] == "u" else "localId", "", g or ""]
            lines.append(json.dumps(row))
        return "\n".join(lines) + "\n"
    raise ValueError(fmt)


def content(target):
    out = set()
    if isinstance(target, Dataset):
        for s, p, o, g in target.quads():
            gk = DEF if (g is None or key(g) == key(DATASET_DEFAULT_GRAPH_ID)) else key(g)
            out.add((key(s), key(p), key(o), gk))
    else:
        for s, p, o in target:
            out.add((key(s), key(p), key(o), DEF))
    return out


def bnodes_of(tuples):
    return {x for t in tuples for x in t if iso.is_b(x)}


def doc_tuples(quads, as_quads, hext=False, default=DEF):
    out = set()
    for s, p, o, g in quads:
        ok = ("l", o[1], "http://www.w3.org/2001/XMLSchema#string" if hext else None, None) if o[0] == "l" else (o[0], o[1])
        gk = default if (g is None or not as_quads) else (("b", g[2:]) if g.startswith("_:") else ("u", g))
        out.add(((s[0], s[1]), (p[0], p[1]), ok, gk))
    return out


def run(case):
    out = Out()
    is_ds = case["target"] in ("dataset", "dataset-graph")
    into_named = case["target"] == "dataset-graph"
    with warnings.catch_warnings():
        warnings.simplefilter("ignore")
        target = Dataset() if is_ds else Graph()
        # pre-existing content: a blank node whose id equals a label documents will use
        pre = BNode("x1")
        g0 = target.default_graph if is_ds else target
        g0.add((URIRef("http://ex.org/s"), URIRef("http://ex.org/p"), pre))
        g0.add((pre, URIRef("http://ex.org/q"), Literal("old")))
        if is_ds and case.get("pre_named"):
            target.graph(URIRef("http://ex.org/g1")).add((URIRef("http://ex.org/s"), URIRef("http://ex.org/p"), BNode("a")))
        seen_labels = {"x1"} | ({"a"} if is_ds and case.get("pre_named") else set())
        for n, doc in enumerate(case["docs"]):
            fmt = doc["fmt"]
            quad_fmt = fmt in QUAD_FMTS
            if quad_fmt and not is_ds:
                continue
            quads = [[q[0], q[1], q[2], q[3] if quad_fmt else None] for q in doc["quads"]]
            anon = [dict(a, g=a["g"] if quad_fmt else None) for a in doc.get("anon") or []]
            if fmt == "trix":
                # an unnamed TriX <graph> is read as an anonymous named graph, not as the default graph: only named graphs are written
                quads = [q for q in quads if q[3] is not None]
                anon = [a for a in anon if a["g"] is not None]
            written, wanon = quads, anon
            quads = quads + anon_quads(anon, quad_fmt)
            # a quoted formula is a node of its own per document, like an anonymous blank node (only the statement about it is in the
            # graph; what it quotes lives in a context of its own)
            formulas = doc.get("formulas") or [] if (fmt == "n3" and not is_ds) else []
            quads = quads + [[["b", f"formula{k}"], f[1], f[2], None] for k, f in enumerate(formulas)]
            if not quads:
                continue
            labels = {t[1] for q in quads for t in q[:3] if t[0] == "b"} | {q[3][2:] for q in quads if q[3] and q[3].startswith("_:")}
            reuse = bool(labels & seen_labels)
            text = write_doc(fmt, written, wanon, xmlbase=bool(doc.get("xmlbase")), formulas=formulas)
            if K.skip("C12-hext-labels-kept-verbatim", fmt == "hext" and bool(labels), out):
                continue
            old = content(target)
            # the sink: the container itself, or one named graph of the Dataset (which then stands for the document's default graph)
            sink = target.graph(URIRef("http://ex.org/g1")) if into_named else target
            r = sut(lambda: sink.parse(data=text, format=fmt))
            where = f"doc#{n} {fmt}: {text[:300]!r}"
            if is_err(r):
                out.fail((fmt, "parse-raises", r.kind, r.site), f"{where}: {r!r}")
                return out
            new = content(target)
            if not old <= new:
                out.fail((fmt, "existing-content-removed-or-altered", "default-graph" if any(t[3] == DEF for t in old - new) else "named-graph"),
                         f"{where}: lost {sorted(old - new, key=repr)[:4]}")
                return out
            added = new - old
            D = doc_tuples(quads, is_ds and quad_fmt, hext=(fmt == "hext"), default=("u", "http://ex.org/g1") if into_named else DEF)
            if fmt == "hext":
                added = {tuple(("l", k[1], "http://www.w3.org/2001/XMLSchema#string", None) if (k[0] == "l" and k[2] is None and k[3] is None) else k for k in t) for t in added}
            Dg = {t for t in D if not bnodes_of([t])}
            Db = D - Dg
            ag = {t for t in added if not bnodes_of([t])}
            ab = added - ag
            if ag != Dg - {t for t in old if not bnodes_of([t])} and not (fmt == "hext" and ag <= Dg):
                out.fail((fmt, "ground-triples-differ"), f"{where}: added ground {sorted(ag, key=repr)[:4]} expected {sorted(Dg, key=repr)[:4]}")
                return out
            captured = bnodes_of(ab) & bnodes_of(old)
            if captured:
                out.fail((fmt, "document-bnode-merged-with-existing-node", "reused-label" if reuse else "fresh-label"),
                         f"{where}: nodes {sorted(captured)} existed before and now also carry the document's statements")
                return out
            try:
                same = iso.isomorphic(Db, ab)
            except iso.IsoBudget:
                return out
            if not same:
                kind = "one-label-became-several-nodes" if len(bnodes_of(ab)) > len(bnodes_of(Db)) else ("labels-merged" if len(bnodes_of(ab)) < len(bnodes_of(Db)) else "structure")
                out.fail((fmt, "added-content-is-not-the-document", kind), f"{where}: added {sorted(ab, key=repr)[:6]} expected (up to renaming) {sorted(Db, key=repr)[:6]}")
                return out
            out.nontrivial |= reuse
            seen_labels |= labels
            out.cls("fmt:" + fmt, "reuse" if reuse else "no-reuse", "target:" + case["target"])
            if wanon and fmt in ANON_FMTS:
                out.cls("anonymous-node-syntax")
            # the same document into two fresh containers gives isomorphic results
            a, b = (Dataset() if is_ds else Graph()), (Dataset() if is_ds else Graph())
            ra, rb = sut(lambda: a.parse(data=text, format=fmt)), sut(lambda: b.parse(data=text, format=fmt))
            if is_err(ra) or is_err(rb) or not iso.isomorphic(content(a), content(b)):
                out.fail((fmt, "two-fresh-parses-not-isomorphic"), where)
                return out
    return out


def strategy(tier):
    term_s = st.one_of(st.sampled_from(IRIS).map(lambda i: ["u", i]), st.sampled_from(LABELS).map(lambda l: ["b", l]), st.sampled_from(LABELS[:2]).map(lambda l: ["b", l]))
    term_o = st.one_of(term_s, st.sampled_from(["v", "w"]).map(lambda s: ["l", s]))
    quad = st.tuples(term_s, st.sampled_from(PREDS).map(lambda p: ["u", p]), term_o, st.sampled_from(GNAMES)).map(list)
    pred = st.sampled_from(PREDS).map(lambda p: ["u", p])
    anon = st.fixed_dictionaries({"props": st.lists(st.tuples(pred, term_o).map(list), min_size=1, max_size=2, unique_by=repr),
                                  "ref": st.one_of(st.none(), st.tuples(term_s, pred).map(list)), "g": st.sampled_from(GNAMES)})
    doc = st.fixed_dictionaries({"fmt": st.sampled_from(TRIPLE_FMTS + QUAD_FMTS), "quads": st.lists(quad, min_size=1, max_size=5, unique_by=repr),
                                 "anon": st.one_of(st.just([]), st.lists(anon, min_size=1, max_size=2)), "xmlbase": st.booleans(),
                                 "formulas": st.one_of(st.just([]), st.just([]), st.lists(st.tuples(
                                     st.tuples(st.sampled_from(IRIS).map(lambda i: ["u", i]), pred, st.sampled_from(IRIS).map(lambda i: ["u", i])).map(list),
                                     st.just(["u", "http://ex.org/says"]), st.sampled_from(IRIS).map(lambda i: ["u", i])).map(list), min_size=1, max_size=2))})
    return st.fixed_dictionaries({"target": st.sampled_from(["graph", "dataset", "dataset", "dataset-graph"]), "pre_named": st.booleans(), "docs": sized_lists(doc, 1, 4)})


SUBCHECKS = [Sub("histories", strategy, run, {"quick": 24000, "thorough": 400000})]
