"""C06 — Quad syntaxes round-trip a Dataset: each triple returns to the graph it was in.

datasets (0-4 named graphs with IRI and blank-node names + default graph, triples shared between graphs, blank nodes shared across
graphs, empty graphs) x {nquads, trig, trix, json-ld, hext, patch(add)}: parse(serialize(ds)) into an empty Dataset must give the same
quads up to one blank-node bijection (graph names included). Second sub-check: RDF Patch diff of two datasets applied to the first
yields the second."""
from __future__ import annotations

import warnings

from hypothesis import strategies as st

from rdflib import BNode, Dataset, Graph, URIRef
from rdflib.graph import DATASET_DEFAULT_GRAPH_ID

from pbt.codec import T, key, tkey
from pbt.core import K, Out, Sub, is_err, sut
from pbt.gen import terms as gt
from pbt.oracle import iso

RULE = ("datasets with 0-4 named graphs (IRI and blank-node names) + default graph over a shared triple pool (so triples live in several "
        "graphs), blank nodes shared across graphs, empty named graphs; x 6 quad syntaxes. patch-diff: pairs of datasets over one pool. "
        "Non-trivial = >=2 non-empty graphs and (a triple in two graphs, or a blank-node-named graph, or a blank node shared across graphs); "
        "distinct by SHA-1 of the case JSON.")
ASSUMPTIONS = ["empty named graphs are not required to survive; no quad may move or appear",
               "hext may identify plain and xsd:string literals",
               "RDF Patch addresses blank nodes by label: the diff sub-check compares quad sets exactly (labels kept by the reader)"]

FORMATS = ["nquads", "trig", "trix", "json-ld", "hext", "patch"]
DEF = ("d",)
XSD_STRING = gt.XSD + "string"


def _imprecise_double(o):
    if o[0] != "l" or len(o) < 4 or o[3] != gt.XSD + "double":
        return False
    try:
        v = float(o[1])
    except ValueError:
        return False
    return v == v and v not in (float("inf"), float("-inf")) and float("%e" % v) != v


def build(case_graphs):
    ds = Dataset()
    for name, triples in case_graphs:
        g = ds.default_graph if name is None else ds.graph(T(name))
        for t in triples:
            g.add(tuple(T(x) for x in t))
    return ds


def quads_of(ds):
    out = set()
    for s, p, o, g in ds.quads():
        gk = DEF if (g is None or key(g) == key(DATASET_DEFAULT_GRAPH_ID)) else key(g)
        out.add((key(s), key(p), key(o), gk))
    return out


def hext_norm(q):
    return tuple(("l", k[1], None, None) if (k[0] == "l" and len(k) > 2 and k[2] == XSD_STRING) else k for k in q)


def features(case_graphs):
    nonempty = [g for g in case_graphs if g[1]]
    seen = {}
    shared_triple = False
    bn_graphs = {}
    for name, triples in case_graphs:
        for t in triples:
            k = repr(t)
            if k in seen and seen[k] != repr(name):
                shared_triple = True
            seen.setdefault(k, repr(name))
            for x in t:
                if x[0] == "b":
                    bn_graphs.setdefault(x[1], set()).add(repr(name))
    bnode_named = any(name is not None and name[0] == "b" and triples for name, triples in case_graphs)
    shared_bnode = any(len(v) > 1 for v in bn_graphs.values())
    return len(nonempty), shared_triple, bnode_named, shared_bnode


def list_cell_in_several_graphs(graphs):
    """class of known finding C06-jsonld-list-cell-in-several-graphs: a blank node with rdf:first in some graph that occurs in >=2 graphs"""
    first = gt.RDFNS + "first"
    cells = {tuple(t[0]) for _, ts in graphs for t in ts if t[1][1] == first and t[0][0] == "b"}
    for c in cells:
        n = sum(1 for _, ts in graphs if any(tuple(x) == c for t in ts for x in (t[0], t[2])))
        if n >= 2:
            return True
    return False


def run(case):
    out = Out()
    fmt = case["fmt"]
    n, shared_triple, bnode_named, shared_bnode = features(case["graphs"])
    if K.skip("C06-jsonld-list-cell-in-several-graphs", fmt == "json-ld" and list_cell_in_several_graphs(case["graphs"]), out):
        return out
    with warnings.catch_warnings():
        warnings.simplefilter("ignore")
        ds = build(case["graphs"])
        want = quads_of(ds)
        kw = {"operation": "add"} if fmt == "patch" else {}
        data = sut(ds.serialize, format=fmt, **kw)
        if is_err(data):
            out.fail((fmt, "serialize-raises", data.kind, data.site), f"{case}: {data!r}")
            return out
        if quads_of(ds) != want:
            out.fail((fmt, "serialize-mutates-dataset"), f"{case}")
            return out
        back = sut(lambda: Dataset().parse(data=data, format=fmt))
        if is_err(back):
            out.fail((fmt, "own-output-does-not-parse", back.kind), f"{case}: {back!r}\n--- output:\n{data[:1200]}")
            return out
        got = quads_of(back)
    w2 = want
    if fmt == "hext":
        got = {hext_norm(q) for q in got}
        w2 = {hext_norm(q) for q in want}
    try:
        same = iso.isomorphic(w2, got)
    except iso.IsoBudget:
        return out
    if not same:
        gw, gg_ = {q[3] for q in w2}, {q[3] for q in got}
        moved = {q[:3] for q in w2} == {q[:3] for q in got}
        kind = "quad-moved-to-another-graph" if moved and len(w2) != len(got) or (moved and gw != gg_) else ("lost" if len(got) < len(w2) else ("added" if len(got) > len(w2) else "changed"))
        out.fail((fmt, "roundtrip-differs", kind, "bnode-named-graph" if bnode_named else ("shared-bnode" if shared_bnode else "plain")),
                 f"{case}\n lost={sorted(w2 - got, key=repr)[:5]}\n extra={sorted(got - w2, key=repr)[:5]}\n--- output:\n{data[:1200]}")
        return out
    out.nontrivial = n >= 2 and (shared_triple or bnode_named or shared_bnode)
    out.cls("fmt:" + fmt, "graphs:%d" % n, *(["shared-triple"] if shared_triple else []), *(["bnode-named"] if bnode_named else []),
            *(["shared-bnode"] if shared_bnode else []))
    return out


def run_patch_diff(case):
    out = Out()
    with warnings.catch_warnings():
        warnings.simplefilter("ignore")
        d1, d2 = build(case["d1"]), build(case["d2"])
        q1, q2 = quads_of(d1), quads_of(d2)
        data = sut(d1.serialize, format="patch", target=d2)
        if is_err(data):
            out.fail(("patch-diff", "serialize-raises", data.kind, data.site), f"{case}: {data!r}")
            return out
        if quads_of(d1) != q1 or quads_of(d2) != q2:
            out.fail(("patch-diff", "serialize-mutates-dataset"), f"{case}")
            return out
        r = sut(lambda: d1.parse(data=data, format="patch"))
        if is_err(r):
            out.fail(("patch-diff", "apply-raises", r.kind, r.site), f"{case}: {r!r}\n--- patch:\n{data[:800]}")
            return out
        got = quads_of(d1)
    if got != q2:
        out.fail(("patch-diff", "result-differs", "lost" if q2 - got else "not-removed"),
                 f"{case}\n missing={sorted(q2 - got, key=repr)[:5]}\n extra={sorted(got - q2, key=repr)[:5]}\n--- patch:\n{data[:800]}")
        return out
    out.nontrivial = q1 != q2 and bool(q1 & q2)
    out.cls("diff:" + ("change" if q1 != q2 else "same"))
    return out


# ---------------------------------------------------------------- strategies
def dataset_graphs(draw, bnodes=True, max_graphs=4):
    subj = [["u", "http://ex.org/s1"], ["u", "http://ex.org/s2"]] + ([["b", "x"], ["b", "y"]] if bnodes else [["u", "urn:x"]])
    pred = [["u", "http://ex.org/p"], ["u", "http://ex.org/ns#q"]]
    obj = [["u", "http://ex.org/o"], ["l", "v", None, None], ["l", "", None, None], ["l", "0", None, gt.XSD + "integer"], ["l", "a\nb\"", "en", None],
           ["l", "s", None, gt.XSD + "string"],
           # a datatype in the namespace of one of the predicates (for which no prefix is bound to begin with)
           ["l", "w", None, "http://ex.org/ns#dt"]] + ([["b", "x"], ["b", "z"]] if bnodes else [])
    # literal spelling is C03's subject: doubles that the Turtle-family shorthand cannot render exactly (known finding of C03) are left out
    extra_obj = draw(st.lists(gt.literals(xml_safe=True).filter(lambda o: not _imprecise_double(o)), max_size=2))
    tri = st.tuples(st.sampled_from(subj), st.sampled_from(pred), st.sampled_from(obj + extra_obj)).map(list)
    names = [None, ["u", "http://ex.org/g1"], ["u", "urn:g2"]] + ([["b", "gb"], ["b", "x"]] if bnodes else [["u", "urn:g3"]])
    chosen = draw(st.lists(st.sampled_from(names), min_size=1, max_size=max_graphs, unique_by=repr))
    graphs = []
    for nm in chosen:
        graphs.append([nm, draw(st.lists(tri, max_size=5, unique_by=repr))])
    if bnodes and draw(st.integers(0, 3)) == 0:
        # a collection whose cells are described in one graph and used from another (or described in two graphs): the cell is one
        # blank node of the dataset, whichever graph mentions it
        R = gt.RDFNS
        cells = [["b", "c0"], ["b", "c1"]]
        n = draw(st.integers(1, 2))
        lst = []
        for i in range(n):
            lst.append([cells[i], ["u", R + "first"], draw(st.sampled_from(obj[:4]))])
            lst.append([cells[i], ["u", R + "rest"], cells[i + 1] if i + 1 < n else ["u", R + "nil"]])
        ref_t = [["u", "http://ex.org/s1"], ["u", "http://ex.org/list"], cells[0]]
        where_cells = draw(st.integers(0, len(graphs) - 1))
        where_ref = draw(st.integers(0, len(graphs) - 1))
        graphs[where_cells][1].extend(lst)
        if draw(st.booleans()):
            graphs[where_ref][1].append(ref_t)
        if draw(st.integers(0, 2)) == 0:
            graphs[draw(st.integers(0, len(graphs) - 1))][1].extend(lst)
        for gpair in graphs:
            seen, uniq = set(), []
            for t in gpair[1]:
                if repr(t) not in seen:
                    seen.add(repr(t)); uniq.append(t)
            gpair[1] = uniq
    return graphs


@st.composite
def cases(draw, fmt):
    return {"fmt": fmt, "graphs": dataset_graphs(draw)}


@st.composite
def diff_cases(draw):
    return {"d1": dataset_graphs(draw, bnodes=draw(st.booleans())), "d2": dataset_graphs(draw, bnodes=False)}


SUBCHECKS = [Sub(fmt, (lambda f: (lambda tier: cases(f)))(fmt), run, {"quick": 2000, "thorough": 50000}, weight=2) for fmt in FORMATS] + [
    Sub("patch-diff", lambda tier: diff_cases(), run_patch_diff, {"quick": 3000, "thorough": 80000}, weight=4)]
