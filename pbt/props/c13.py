"""C13 — Reading a graph never changes it: serialise, query, compare are pure.

A generated Graph or Dataset (blank-node-named graphs, empty graphs, default_union on/off, Memory / SimpleMemory) and a generated
sequence of read-only calls. The content snapshot (quads + set of graphs, taken through the store) must be identical after every call,
and every call is made twice in a row: both answers must be the same."""
from __future__ import annotations

import warnings

from hypothesis import strategies as st

from rdflib import BNode, ConjunctiveGraph, Dataset, Graph, Literal, URIRef, Variable
from rdflib import compare
from rdflib.graph import DATASET_DEFAULT_GRAPH_ID
from rdflib.namespace import RDF
from rdflib.paths import MulPath
from rdflib.plugins.stores.memory import SimpleMemory

from pbt.codec import T, key, tkey
from pbt.core import HarnessStepLimit, K, Out, Sub, is_err, sut
from pbt.gen.util import sized_lists
from pbt.oracle import iso
from pbt.props.c06 import dataset_graphs

RULE = ("graph or dataset (0-4 graphs incl. blank-node-named and empty ones, default_union on/off, Memory/SimpleMemory for plain graphs) x a "
        "sequence of 3-10 read-only calls drawn from: serialize in 14 formats, SELECT/ASK/CONSTRUCT/DESCRIBE queries (GRAPH <absent>, GRAPH ?g, "
        "paths, OPTIONAL, aggregates), 8 query objects prepared once per case and evaluated repeatedly (multi-key ORDER BY, compared as "
        "sequences), path evaluation, isomorphic/to_isomorphic/to_canonical_graph/graph_diff, len/iter/in/slicing, subjects("
        "unique), value, items, transitive_objects, cbd, connected, all_nodes, skolemize, namespaces, graphs(), quads(), membership with a Graph "
        "of the same store or of another store as context. Non-trivial = >=2 graphs incl. a blank-node-named or empty one and the sequence has a serialise and a "
        "query; distinct by SHA-1 of the case JSON.")
ASSUMPTIONS = ["prefix bindings are not part of the snapshot (serialisers and qname legitimately generate prefixes)",
               "two serialisations of a single graph are 'the same answer' if byte-equal; of a dataset also if they parse to isomorphic "
               "datasets (listing the graphs registers the default graph with the store the first time, which can change the order "
               "the store hands the graphs out in)"]

DEF = ("d",)
GFMT = ["nt", "turtle", "longturtle", "n3", "xml", "pretty-xml", "json-ld", "hext"]
DFMT = ["nquads", "trig", "trix", "json-ld", "hext", "patch"]
QUERIES = [
    "SELECT * WHERE { ?s ?p ?o }",
    "SELECT ?s (COUNT(?o) AS ?n) WHERE { ?s ?p ?o } GROUP BY ?s ORDER BY ?s",
    "ASK { ?s <http://ex.org/p> ?o }",
    "CONSTRUCT { ?o <urn:inv> ?s } WHERE { ?s <http://ex.org/p> ?o }",
    "DESCRIBE <http://ex.org/s1>",
    "SELECT * WHERE { GRAPH <urn:absent> { ?s ?p ?o } }",
    "SELECT * WHERE { GRAPH ?g { ?s ?p ?o } }",
    "SELECT * WHERE { VALUES ?g { <urn:absent2> <http://ex.org/g1> } GRAPH ?g { ?s ?p ?o } }",
    "SELECT * WHERE { ?s <http://ex.org/p>* ?o }",
    "SELECT * WHERE { ?s <http://ex.org/p>/<http://ex.org/ns#q>? ?o }",
    "SELECT * WHERE { ?s ?p ?o OPTIONAL { ?o ?q ?z } FILTER(!BOUND(?z) || isIRI(?z)) }",
    "SELECT DISTINCT ?p WHERE { { ?s ?p ?o } UNION { GRAPH ?g { ?s ?p ?o } } } ORDER BY ?p LIMIT 3",
    "SELECT * WHERE { ?s ?p ?o MINUS { ?s <http://ex.org/ns#q> ?x } }",
    "SELECT ?s WHERE { ?s ?p ?o FILTER EXISTS { GRAPH ?g { ?s ?p2 ?o2 } } }",
    # dataset clauses: a graph of the dataset, and a document that is not in the dataset but can be dereferenced (a file shipped with the
    # harness; SPARQL_LOAD_GRAPHS is on by default) - reading it must not leave it behind in the queried dataset
    "SELECT * FROM <http://ex.org/g1> WHERE { ?s ?p ?o }",
    "SELECT * FROM <%(doc)s> WHERE { ?s ?p ?o }",
    "SELECT * FROM <%(doc)s> FROM <http://ex.org/g1> WHERE { ?s ?p ?o }",
    "SELECT * FROM NAMED <%(doc)s> WHERE { GRAPH ?g { ?s ?p ?o } }",
    "ASK FROM <%(doc)s> { ?s ?p \"loaded\" }",
]
import pathlib as _pathlib  # noqa: E402
_DOC = (_pathlib.Path(__file__).resolve().parent.parent / "data" / "from_doc.ttl").as_uri()
QUERIES = [q % {"doc": _DOC} if "%(doc)s" in q else q for q in QUERIES]
S1, P1 = URIRef("http://ex.org/s1"), URIRef("http://ex.org/p")


def snapshot(target):
    """content through the store, plus the set of graphs of a dataset"""
    out = set()
    if isinstance(target, ConjunctiveGraph):
        store = target.store
        default_id = key(DATASET_DEFAULT_GRAPH_ID) if isinstance(target, Dataset) else key(target.default_context.identifier)
        for (s, p, o), ctxs in store.triples((None, None, None), None):
            for c in ctxs:
                ident = getattr(c, "identifier", c)
                out.add((key(s), key(p), key(o), DEF if key(ident) == default_id else key(ident)))
        graphs = frozenset(key(getattr(c, "identifier", c)) for c in store.contexts()) | {default_id}
        return frozenset(out), graphs
    return frozenset(tkey(t) for t in target), frozenset()


def norm_result(r):
    """hashable, order-sensitive rendering of a read's answer"""
    from rdflib.query import Result
    if isinstance(r, (bytes, str)):
        return ("text", r)
    if isinstance(r, Result):
        if r.type == "ASK":
            return ("ask", r.askAnswer)
        if r.type in ("CONSTRUCT", "DESCRIBE"):
            return ("graph", frozenset(tkey(t) for t in r.graph))
        if getattr(r, "_verif_ordered", False):
            # ORDER BY over keys that leave only identical rows tied: the sequence is part of the answer
            return ("rows-in-order", tuple(str(v) for v in (r.vars or [])), tuple(tuple(sorted((str(k), key(v)) for k, v in b.items())) for b in r.bindings))
        return ("rows", tuple(str(v) for v in (r.vars or [])), tuple(sorted((tuple(sorted((str(k), key(v)) for k, v in b.items())) for b in r.bindings), key=repr)))
    if isinstance(r, Graph):
        return ("graph", frozenset(tkey(t) for t in r))
    if isinstance(r, (set, frozenset, list, tuple)):
        try:
            return ("coll", tuple(sorted((norm_result(x) for x in r), key=repr)))
        except Exception:  # noqa: BLE001
            return ("coll", repr(r))
    if isinstance(r, (URIRef, BNode, Literal)):
        return ("term", key(r))
    return ("val", repr(r))


def same_answer(a, b, fmt=None, strict_text=False):
    if a == b:
        return True
    if strict_text and a[0] == "text":
        # a single graph written twice in a row: the same text (for a dataset the order of the graphs may differ between the first
        # and the second time, see ASSUMPTIONS, and the texts are compared by what they say)
        return False
    if a[0] == "graph" and b[0] == "graph":
        return iso.isomorphic(a[1], b[1])
    if a[0] == "text" and b[0] == "text" and fmt:
        try:
            pf = {"longturtle": "turtle", "pretty-xml": "xml"}.get(fmt, fmt)
            if fmt in DFMT and fmt != "json-ld" and fmt != "hext" or fmt in ("nquads", "trig", "trix", "patch"):
                ga, gb = Dataset().parse(data=a[1], format=pf), Dataset().parse(data=b[1], format=pf)
                return iso.isomorphic({(key(s), key(p), key(o), key(g) if g is not None else DEF) for s, p, o, g in ga.quads()},
                                      {(key(s), key(p), key(o), key(g) if g is not None else DEF) for s, p, o, g in gb.quads()})
            ga, gb = Graph().parse(data=a[1], format=pf), Graph().parse(data=b[1], format=pf)
            return iso.isomorphic({tkey(t) for t in ga}, {tkey(t) for t in gb})
        except Exception:  # noqa: BLE001
            return False
    return False


def make_paths():
    """path objects held for the whole case: evaluating them must not change them"""
    q = URIRef("http://ex.org/ns#q")
    return {"seq": P1 / q, "seq3": P1 / q / P1, "alt": P1 | q, "inv": ~(P1 / q), "star-seq": MulPath(P1 / q, "*"), "neg": -P1}


# query objects held for the whole case (prepareQuery once, evaluated again and again): evaluating them must not change them.
# The ORDER BY keys cover every projected variable, so the sequence of rows is determined.
PREPARED = [
    "SELECT ?s ?p ?o WHERE { ?s ?p ?o } ORDER BY ?p DESC(?o) ?s",
    "SELECT ?p (COUNT(*) AS ?n) WHERE { ?s ?p ?o } GROUP BY ?p ORDER BY DESC(?n) ?p",
    "SELECT ?s ?p ?o WHERE { ?s ?p ?o } ORDER BY ?p ?o ?s LIMIT 3",
    "SELECT ?g ?s ?p ?o WHERE { GRAPH ?g { ?s ?p ?o } } ORDER BY ?p ?g DESC(?s) ?o",
    "SELECT ?s ?n WHERE { ?s <http://ex.org/p> ?x { SELECT ?s (COUNT(?o) AS ?n) WHERE { ?s ?p ?o } GROUP BY ?s ORDER BY DESC(?n) ?s LIMIT 2 } } ORDER BY ?n ?s",
    "SELECT DISTINCT ?s ?o WHERE { ?s <http://ex.org/p>+ ?o } ORDER BY DESC(?o) ?s",
    "CONSTRUCT { ?o <urn:inv> ?s } WHERE { ?s ?p ?o FILTER(isIRI(?o)) }",
    "ASK { ?s <http://ex.org/ns#q> ?o }",
]


class make_prepared(dict):
    """index -> query object, prepared when first asked for and then kept for the rest of the case"""
    def __missing__(self, i):
        from rdflib.plugins.sparql import prepareQuery
        self[i] = prepareQuery(PREPARED[i])
        return self[i]


def _foreign(name):
    g = Graph(identifier=URIRef(name))
    g.add((S1, P1, Literal("foreign")))
    return g


def make_read(op, target, is_ds, paths=None, prepared=None):
    """returns (label, callable) for a read-only call"""
    name = op[0]
    g0 = target.default_context if is_ds else target
    if name == "serialize":
        fmts = DFMT if is_ds else GFMT
        fmt = fmts[op[1] % len(fmts)]
        kw = {"operation": "add"} if fmt == "patch" else {}
        return "serialize:" + fmt, (lambda: target.serialize(format=fmt, **kw)), fmt
    if name == "serialize-member":
        # one member graph of the dataset (or the graph itself) written in a triple syntax, with the options a serializer takes
        # (longturtle canon=True re-parses a canonical form into a scratch graph; nothing of that may land in the shared store)
        fmt = GFMT[op[1] % len(GFMT)]
        if is_ds:
            members = [target.default_context] + sorted((g for g in target.contexts() if g.identifier != target.default_context.identifier), key=lambda g: repr(g.identifier))
            member = members[op[2] % len(members)]
        else:
            member = target
        kw = {"canon": True} if (fmt == "longturtle" and op[3]) else {}
        return "serialize-member:" + fmt + (":canon" if kw else ""), (lambda: member.serialize(format=fmt, **kw)), fmt
    if name == "query":
        q = QUERIES[op[1] % len(QUERIES)]
        def run_q():
            r = target.query(q)
            list(r)  # force evaluation
            return r
        return "query:%d" % (op[1] % len(QUERIES)), run_q, None
    if name == "prepared":
        i = op[1] % len(PREPARED)
        def run_p():
            r = target.query(prepared[i])
            list(r)
            r._verif_ordered = "ORDER BY" in PREPARED[i]
            return r
        return "prepared:%d" % i, run_p, None
    reads = {
        "len": lambda: len(target),
        "iter": lambda: frozenset(map(repr, target)),
        "contains": lambda: ((S1, P1, None) in target, (S1, P1, Literal("nope")) in target),
        "slice": lambda: list(g0[S1:P1]) + list(g0[:P1]),
        "subjects-unique": lambda: list(g0.subjects(P1, None, unique=True)),
        "value": lambda: g0.value(S1, P1, any=True) is not None,
        "items": lambda: [list(g0.items(s)) for s in set(g0.subjects(RDF.first, None))][:3] if not any(True for _ in []) else None,
        "transitive": lambda: list(g0.transitive_objects(S1, P1)),
        "path": lambda: sorted(map(repr, g0.triples((None, MulPath(P1, "*"), None)))),
        "held-path-object-bound": lambda: sorted(repr(x) for k in sorted(paths) for o in set(g0.objects()) for x in g0.subjects(paths[k], o)),
        "held-path-subject-bound": lambda: sorted(repr(x) for k in sorted(paths) for s_ in set(g0.subjects()) for x in g0.objects(s_, paths[k])),
        "held-path-unbound": lambda: sorted(repr(x) for k in sorted(paths) for x in g0.subject_objects(paths[k])),
        "held-path-n3": lambda: [paths[k].n3() for k in sorted(paths)],
        "cbd": lambda: g0.cbd(S1),
        "connected": lambda: g0.connected(),
        "all_nodes": lambda: g0.all_nodes(),
        "skolemize": lambda: len(g0.skolemize()),
        "namespaces": lambda: len(list(target.namespaces())) >= 0,
        "isomorphic": lambda: compare.isomorphic(g0, g0),
        "to_isomorphic": lambda: compare.to_isomorphic(g0).internal_hash(),
        "canonical": lambda: compare.to_canonical_graph(g0),
        "graph_diff": lambda: tuple(frozenset(tkey(t) for t in x) for x in compare.graph_diff(g0, g0)),
        "graph-isomorphic-method": lambda: g0.isomorphic(g0),
    }
    if is_ds:
        reads.update({
            "graphs": lambda: sorted(repr(g.identifier) for g in target.graphs()),
            "quads": lambda: frozenset(map(repr, target.quads())),
            "quads-g": lambda: frozenset(map(repr, target.quads((None, None, None, URIRef("http://ex.org/g1"))))),
            "contains4": lambda: ((S1, P1, None, Graph(store=target.store, identifier=URIRef("urn:never"))) in target,
                                  (S1, P1, None, BNode("gb")) in target),
            "triples-ctx": lambda: list(target.triples((None, None, None), context=Graph(store=target.store, identifier=URIRef("urn:never2")))),
            "get_context": lambda: len(target.get_context(URIRef("urn:never3"))),
            # a Graph of ANOTHER store given as the context to look in (it names the graph; nothing of it belongs to the dataset)
            "contains4-foreign": lambda: ((S1, P1, None, _foreign("http://ex.org/g1")) in target, (S1, P1, None, _foreign("urn:never4")) in target),
            "triples-ctx-foreign": lambda: sorted(map(repr, target.triples((None, None, None), context=_foreign("urn:never5")))),
            "quads-foreign": lambda: sorted(map(repr, target.quads((None, None, None, _foreign("http://ex.org/g1"))))),
        })
    names = sorted(reads)
    nm = names[op[1] % len(names)] if name == "api" else name
    return "api:" + nm, reads[nm], None


def run(case):
    out = Out()
    is_ds = case["kind"] != "graph"
    with warnings.catch_warnings():
        warnings.simplefilter("ignore")
        if is_ds:
            # ("cg": the older ConjunctiveGraph, whose default context has a blank node for a name)
            target = ConjunctiveGraph() if case["kind"] == "cg" else Dataset(default_union=(case["kind"] == "dataset-union"))
            for name, triples in case["graphs"]:
                g = target.default_context if name is None else target.get_context(T(name))
                for t in triples:
                    g.add(tuple(T(x) for x in t))
        else:
            target = Graph(store=SimpleMemory()) if case.get("store") == "simple" else Graph()
            for name, triples in case["graphs"][:1]:
                for t in triples:
                    target.add(tuple(T(x) for x in t))
        before = snapshot(target)
        paths = make_paths()
        prepared = make_prepared()
        labels = []
        for step, op in enumerate(case["ops"]):
            label, fn, fmt = make_read(op, target, is_ds, paths, prepared)
            labels.append(label)
            r1 = sut(lambda: norm_result(fn()))
            after1 = snapshot(target)
            if after1 != before:
                what = "graphs-changed" if after1[1] != before[1] else ("triples-added" if after1[0] - before[0] else "triples-removed")
                out.fail(("read-mutates", label, what), f"step {step} {label}: added={sorted(after1[0] - before[0], key=repr)[:4]} removed={sorted(before[0] - after1[0], key=repr)[:4]} "
                                                        f"graphs+={sorted(after1[1] - before[1], key=repr)} graphs-={sorted(before[1] - after1[1], key=repr)}; case={case}")
                return out
            r2 = sut(lambda: norm_result(fn()))
            if snapshot(target) != before:
                out.fail(("read-mutates-on-repeat", label), f"step {step} {label}: case={case}")
                return out
            if is_err(r1) != is_err(r2):
                out.fail(("not-repeatable", label, "raises-once"), f"step {step} {label}: {r1!r} vs {r2!r}")
                return out
            if not is_err(r1) and not same_answer(r1, r2, fmt, strict_text=not is_ds):
                out.fail(("not-repeatable", label), f"step {step} {label}: first={str(r1)[:300]} second={str(r2)[:300]}")
                return out
            out.sub_evals += 1
            if is_err(r1):
                out.cls("raises:" + label + ":" + r1.kind)
    n_graphs = len(case["graphs"]) if is_ds else 1
    special = any((nm is not None and nm[0] == "b") or not ts for nm, ts in case["graphs"]) if is_ds else False
    out.nontrivial = n_graphs >= 2 and special and any(l.startswith("serialize") for l in labels) and any(l.startswith("query") for l in labels)
    out.cls("kind:" + case["kind"], *set(labels))
    return out


@st.composite
def cases(draw, tier):
    kind = draw(st.sampled_from(["graph", "dataset", "dataset", "dataset-union", "cg"]))
    op = st.one_of(st.tuples(st.just("serialize"), st.integers(0, 7)), st.tuples(st.just("query"), st.integers(0, len(QUERIES) - 1)),
                   st.tuples(st.just("api"), st.integers(0, 33)), st.tuples(st.just("api"), st.integers(0, 33)),
                   st.tuples(st.just("prepared"), st.integers(0, len(PREPARED) - 1)),
                   st.tuples(st.just("serialize-member"), st.sampled_from([0, 1, 2, 2, 2, 3, 4, 5, 6, 7]), st.integers(0, 3), st.booleans())).map(list)
    return {"kind": kind, "store": draw(st.sampled_from(["memory", "simple"])), "graphs": dataset_graphs(draw),
            "ops": draw(sized_lists(op, 3, 10))}


SUBCHECKS = [Sub("reads", lambda tier: cases(tier), run, {"quick": 8000, "thorough": 160000})]
