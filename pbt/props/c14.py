"""C14 — Graph isomorphism and canonicalisation decide equality up to blank-node renaming.

Pairs (g1, g2): g2 = relabelled + shuffled g1, optionally with one minimal perturbation (near-miss). Truth is decided by the
independent backtracking oracle (pbt/oracle/iso.py); rdflib's compare.isomorphic, to_isomorphic equality, internal_hash,
to_canonical_graph, graph_diff and skolemize/de_skolemize are checked against it, on plain graphs, on further relabelled copies of the first
graph and on ReadOnlyGraphAggregate views of the same triples. A second leg (skolem) round-trips graphs of up to 260 (400) blank nodes
through skolemize()/de_skolemize() in its three addressing modes and checks the result by the nodes' own labels."""
from __future__ import annotations

import json
import warnings

from hypothesis import strategies as st

from rdflib import Graph
from rdflib.graph import ReadOnlyGraphAggregate
from rdflib import compare

from pbt.codec import T, key, tkey
from pbt.core import Out, Sub, is_err, sut
from pbt.gen import graphs as gg
from pbt.gen import terms as gt
from pbt.oracle import iso

RULE = ("pairs built from symmetric blank-node families (cycles C_n, C_a+C_b vs C_(a+b), K_m,n, prisms vs Moebius ladders, cube, Petersen, "
        "stars, paths, K_n) or random bnode graphs, <=10 (quick) / <=14 (thorough) blank nodes, with identical decorations and ground triples; "
        "g2 is a relabelled shuffle of g1 plus, in ~half of the cases, one edge move / drop / add / ground-term change. Non-trivial = the "
        "oracle's colour refinement leaves a cell of >=3 indistinguishable blank nodes in g1; distinct by SHA-1 of the case JSON.")
ASSUMPTIONS = ["Graph.isomorphic is only required to be true for isomorphic graphs (documented as approximation)",
               "IRIs under /.well-known/genid/ are not generated (skolem round trip)",
               "oracle search budget 200000 nodes; exceeding it counts the case as inconclusive"]


def to_graph(triples):
    g = Graph()
    for t in triples:
        g.add(tuple(T(x) for x in t))
    return g


def keys(triples):
    return {tuple(key(T(x)) for x in t) for t in triples}


def gkeys(g):
    return {tkey(t) for t in g}


def run(case):
    try:
        return _run(case)
    except iso.IsoBudget:
        # the independent isomorphism search ran out of its node budget on a later comparison: inconclusive, never a violation
        out = Out()
        out.cls("oracle-budget")
        return out


def _run(case):
    out = Out()
    j1, j2 = case["g1"], case["g2"]
    k1, k2 = keys(j1), keys(j2)
    try:
        truth = iso.isomorphic(k1, k2)
    except iso.IsoBudget:
        out.cls("oracle-budget")
        return out
    cl = iso.cells(k1)
    out.nontrivial = bool(cl) and cl[0] >= 3
    out.cls("truth:" + str(truth), "family:" + case.get("family", "?"), "perturbed" if case.get("perturb") else "relabel-only")
    with warnings.catch_warnings():
        warnings.simplefilter("ignore")
        g1, g2 = to_graph(j1), to_graph(j2)
        fam = case.get("family", "?")
        r = sut(compare.isomorphic, g1, g2)
        if is_err(r):
            out.fail(("isomorphic-raises", r.kind, r.site), f"{case}: {r!r}")
            return out
        if r != truth:
            out.fail(("compare.isomorphic", "false-positive" if r else "false-negative", fam), f"truth={truth}: {case}")
            return out
        i1, i2 = sut(compare.to_isomorphic, g1), sut(compare.to_isomorphic, g2)
        if is_err(i1) or is_err(i2):
            out.fail(("to_isomorphic-raises",), f"{i1!r} {i2!r}")
            return out
        r = sut(lambda: i1 == i2)
        if is_err(r) or r != truth:
            out.fail(("to_isomorphic-eq", "false-positive" if r is True else "false-negative", fam), f"truth={truth} got={r!r}: {case}")
            return out
        r = sut(lambda: i1 != i2)
        if is_err(r) or r != (not truth):
            out.fail(("to_isomorphic-ne",), f"truth={truth} got={r!r}")
            return out
        h1, h2 = sut(i1.internal_hash), sut(i2.internal_hash)
        if is_err(h1) or is_err(h2):
            out.fail(("internal_hash-raises",), f"{h1!r} {h2!r}")
            return out
        if truth and h1 != h2:
            out.fail(("internal_hash-differs-for-isomorphic", fam), str(case))
            return out
        # further relabelled, reshuffled copies of g1 (the outcome of the canonical labelling may depend on the order in which the
        # blank nodes are met, so one copy per structure explores little): each is isomorphic to g1 by construction
        for n, (perm, order) in enumerate(case.get("copies") or []):
            labels = sorted({x[1] for t in j1 for x in (t[0], t[2]) if x[0] == "b"})
            ren = {a: "c%d_%s" % (n, labels[perm[i] % len(labels)]) for i, a in enumerate(labels)} if len(set(p % max(len(labels), 1) for p in perm[:len(labels)])) == len(labels) else None
            if ren is None:
                continue
            j1c = [[(["b", ren[x[1]]] if x[0] == "b" else x) for x in t] for t in j1]
            j1c = [j1c[i] for i in sorted(range(len(j1c)), key=lambda i: (order[i % len(order)], i))]
            gc = to_graph(j1c)
            r = sut(compare.isomorphic, g1, gc)
            if is_err(r) or r is not True:
                out.fail(("compare.isomorphic", "false-negative", fam), f"truth=True got={r!r} for a relabelled copy {j1c} of g1: {case}")
                return out
            cc = sut(compare.to_canonical_graph, gc)
            if is_err(cc) or gkeys(cc) != gkeys(sut(compare.to_canonical_graph, g1)):
                out.fail(("canonical-graph-equality", "differs-for-isomorphic", fam), f"relabelled copy {j1c} of g1: {case}")
                return out
            out.cls("extra-copy")
        # the same IsomorphicGraph object after an edit that keeps its size: one edge redirected to another of its nodes
        ed = case.get("edit")
        if ed is not None and j1:
            t = j1[ed[0] % len(j1)]
            nodes = sorted({json.dumps(x) for tr in j1 for x in (tr[0], tr[2]) if x[0] != "l"})
            new = [t[0], t[1], json.loads(nodes[ed[1] % len(nodes)])]
            if new != t and new not in j1:
                j3 = [x for x in j1 if x != t] + [new]
                k3 = keys(j3)
                e = sut(lambda: (i1.remove(tuple(T(x) for x in t)), i1.add(tuple(T(x) for x in new))))
                if is_err(e):
                    out.fail(("edit-raises", e.kind), f"{case}: {e!r}")
                    return out
                t32 = iso.isomorphic(k3, k2)
                r = sut(lambda: i1 == i2)
                if is_err(r) or r != t32:
                    out.fail(("to_isomorphic-eq-after-edit", "false-positive" if r is True else "false-negative", fam),
                             f"truth={t32} got={r!r} after replacing {t} by {new}: {case}")
                    return out
                fresh = sut(compare.to_isomorphic, to_graph(j3))
                r = sut(lambda: i1 == fresh)
                if is_err(r) or r is not True:
                    out.fail(("to_isomorphic-eq-after-edit", "differs-from-fresh-copy", fam), f"got={r!r} after replacing {t} by {new}: {case}")
                    return out
                out.cls("edited-in-place")
        # canonical graphs
        c1, c2 = sut(compare.to_canonical_graph, g1), sut(compare.to_canonical_graph, g2)
        if is_err(c1) or is_err(c2):
            out.fail(("to_canonical_graph-raises",), f"{c1!r} {c2!r}")
            return out
        s1, s2 = gkeys(c1), gkeys(c2)
        if (s1 == s2) != truth:
            out.fail(("canonical-graph-equality", "equal-for-non-isomorphic" if s1 == s2 else "differs-for-isomorphic", fam), f"truth={truth}: {case}")
            return out
        if not iso.isomorphic(s1, k1):
            out.fail(("canonical-graph-not-isomorphic-to-input", fam), f"{case}: canonical={sorted(s1, key=repr)}")
            return out
        # the same graphs given as read-only union views (ReadOnlyGraphAggregate over a partition of the triples, or over the one graph)
        view = case.get("view", 0)
        if view:
            def agg(j):
                parts = [j[0::2], j[1::2]] if view == 1 else [j]
                return ReadOnlyGraphAggregate([to_graph(x) for x in parts])
            a1, a2 = agg(j1), agg(j2)
            ca1, ca2 = sut(compare.to_canonical_graph, a1), sut(compare.to_canonical_graph, a2)
            if is_err(ca1) or is_err(ca2):
                out.fail(("to_canonical_graph-raises", "aggregate"), f"{ca1!r} {ca2!r}")
                return out
            if gkeys(ca1) != s1 or gkeys(ca2) != s2:
                out.fail(("canonical-graph-of-aggregate-differs-from-that-of-its-union", fam), f"view={view}: {case}")
                return out
            r = sut(compare.isomorphic, a1, a2)
            if is_err(r) or r != truth:
                out.fail(("compare.isomorphic", "aggregate", "false-positive" if r is True else "false-negative", fam), f"truth={truth} got={r!r}: {case}")
                return out
            d = sut(compare.graph_diff, a1, a2)
            if is_err(d):
                out.fail(("graph_diff-raises", "aggregate", d.kind, d.site), f"{case}: {d!r}")
                return out
            both, first, second = (gkeys(x) for x in d)
            if first & second or not iso.isomorphic(both | first, k1) or not iso.isomorphic(both | second, k2) or (truth and (first or second)):
                out.fail(("graph_diff-of-aggregates", fam), f"view={view}: {case}: both={sorted(both, key=repr)} first={sorted(first, key=repr)} second={sorted(second, key=repr)}")
                return out
            out.cls("aggregate-view")
        # Graph.isomorphic: necessary condition only
        r = sut(g1.isomorphic, g2)
        if is_err(r) or (truth and not r):
            out.fail(("Graph.isomorphic-false-for-isomorphic", fam), f"{r!r}: {case}")
            return out
        # graph_diff
        d = sut(compare.graph_diff, g1, g2)
        if is_err(d):
            out.fail(("graph_diff-raises", d.kind, d.site), f"{case}: {d!r}")
            return out
        both, first, second = (gkeys(x) for x in d)
        if first & second:
            out.fail(("graph_diff-first-and-second-share",), f"{case}: {first & second}")
            return out
        if not iso.isomorphic(both | first, k1):
            out.fail(("graph_diff-both+first", fam), f"{case}: both={sorted(both, key=repr)} first={sorted(first, key=repr)}")
            return out
        if not iso.isomorphic(both | second, k2):
            out.fail(("graph_diff-both+second", fam), f"{case}: both={sorted(both, key=repr)} second={sorted(second, key=repr)}")
            return out
        if truth and (first or second):
            out.fail(("graph_diff-nonempty-for-isomorphic", fam), f"{case}: first={first} second={second}")
            return out
        if gkeys(g1) != k1 or gkeys(g2) != k2:
            out.fail(("inputs-mutated",), str(case))
            return out
        # skolem round trip
        sk = case.get("skolem", 0)
        kw = {} if sk == 0 else {"authority": "http://ex.org"}  # a custom basepath is documented as not round-trippable
        r = sut(lambda: g1.skolemize(**kw).de_skolemize())
        if is_err(r):
            out.fail(("skolem-raises", r.kind, r.site), f"{case}: {r!r}")
            return out
        if not iso.isomorphic(gkeys(r), k1):
            out.fail(("skolem-roundtrip", str(sk)), f"{case}: got {sorted(gkeys(r), key=repr)}")
            return out
        mid = sut(lambda: g1.skolemize(**kw))
        if not is_err(mid) and any(x[0] == "b" for t in gkeys(mid) for x in t):
            out.fail(("skolemize-leaves-bnodes",), str(case))
            return out
    out.sub_evals = 8
    return out


@st.composite
def pairs(draw, tier):
    maxn = 14 if tier == "thorough" else 10
    fam, triples = draw(gg.bnode_structure(max_nodes=maxn))
    ground = draw(st.lists(st.tuples(gt.iris(rich=False), st.sampled_from([["u", "urn:p"], ["u", "urn:g"]]),
                                     st.one_of(gt.iris(rich=False), gt.literals())).map(list), max_size=3))
    # hang some ground context off one or two blank nodes (breaks part of the symmetry)
    bns = sorted({tuple(x) for t in triples for x in (t[0], t[2]) if x[0] == "b"})
    extra = []
    if bns and draw(st.booleans()):
        b = list(draw(st.sampled_from(bns)))
        extra.append([b, ["u", "urn:mark"], ["l", "m", None, None]])
    lang_variant = None
    if draw(st.integers(0, 3)) == 0:
        # a language-tagged literal that the second graph spells with another case of the tag (the same term)
        tag = draw(st.sampled_from(["en-US", "EN", "de-ch", "zh-Hant-TW"]))
        who = list(draw(st.sampled_from(bns))) if bns and draw(st.booleans()) else ["u", "urn:s"]
        extra.append([who, ["u", "urn:lbl"], ["l", "hi", tag, None]])
        lang_variant = tag
    g1 = triples + ground + extra
    seen, d1 = set(), []
    for t in g1:
        if repr(t) not in seen:
            seen.add(repr(t)); d1.append(t)
    g1 = d1
    # relabel + shuffle
    labels = [b[1] for b in bns]
    perm = draw(st.permutations(labels))
    ren = {a: "m" + b for a, b in zip(labels, perm)}

    def rn(x):
        return ["b", ren[x[1]]] if x[0] == "b" else x
    g2 = [[rn(x) for x in t] for t in draw(st.permutations(g1))]
    if lang_variant:
        other = lang_variant.lower() if lang_variant != lang_variant.lower() else lang_variant.upper()
        g2 = [[x if not (x[0] == "l" and x[2] == lang_variant) else ["l", x[1], other, None] for x in t] for t in g2]
    perturb = None
    if g2 and draw(st.booleans()):
        kind = draw(st.sampled_from(["move-end", "drop", "add", "swap-objects", "ground"]))
        i = draw(st.integers(0, len(g2) - 1))
        b2 = sorted({tuple(x) for t in g2 for x in (t[0], t[2]) if x[0] == "b"})
        if kind == "move-end" and b2:
            pos = draw(st.sampled_from([0, 2]))
            if g2[i][pos][0] == "b":
                g2[i] = list(g2[i]); g2[i][pos] = list(draw(st.sampled_from(b2)))
        elif kind == "drop":
            g2 = g2[:i] + g2[i + 1:]
        elif kind == "add" and b2:
            g2.append([list(draw(st.sampled_from(b2))), ["u", "urn:p"], list(draw(st.sampled_from(b2)))])
        elif kind == "swap-objects" and len(g2) >= 2:
            j = draw(st.integers(0, len(g2) - 1))
            a, b = list(g2[i]), list(g2[j])
            a[2], b[2] = b[2], a[2]
            g2[i], g2[j] = a, b
        elif kind == "ground":
            g2[i] = list(g2[i]); g2[i][1] = ["u", "urn:other"]
        perturb = kind
        seen, d2 = set(), []
        for t in g2:
            if repr(t) not in seen:
                seen.add(repr(t)); d2.append(t)
        g2 = d2
    copies = [[draw(st.permutations(range(len(labels)))), draw(st.lists(st.integers(0, 9), min_size=4, max_size=4))]
              for _ in range(5 if fam in ("two-permutations", "overlay") else draw(st.sampled_from([0, 0, 2, 3])))] if labels else []
    edit = draw(st.one_of(st.none(), st.tuples(st.integers(0, 30), st.integers(0, 30)).map(list)))
    return {"family": fam, "g1": g1, "g2": g2, "perturb": perturb, "skolem": draw(st.integers(0, 1)), "edit": edit, "copies": copies,
            "view": draw(st.sampled_from([0, 0, 1, 2]))}


# ---------------------------------------------------------------- skolem round trip of graphs with many blank nodes
def run_skolem(case):
    """n blank nodes, each with a label literal of its own and a link to the k-th next one; skolemize(...).de_skolemize() must give back
    a graph in which every label still belongs to one node and the links still connect the same labels (the labels make the check exact
    without an isomorphism search)"""
    out = Out()
    n, step, order, mode = case["n"], case["step"], case["order"], case["mode"]
    from rdflib import BNode, Literal, URIRef
    LBL, NXT = URIRef("urn:label"), URIRef("urn:next")
    # (labels of the second style contain '/' and many share their last segment: such nodes must stay apart through the skolem IRI)
    nodes = [BNode("r%d" % i) if not case.get("labels") else BNode("doc%d/b%d" % (i, i % 3)) for i in range(n)]
    attrs = [(nodes[i], LBL, Literal(i)) for i in range(n)]
    links = [(nodes[i], NXT, nodes[(i + step) % n]) for i in range(n)]
    triples = attrs + links if order == 0 else (links + attrs if order == 1 else [t for pair in zip(attrs, links) for t in pair])
    g = Graph()
    for t in triples:
        g.add(t)
    kw = [{}, {"authority": "http://ex.org"}, {"authority": "http://ex.org/", "basepath": "/.well-known/genid/"}][mode]
    with warnings.catch_warnings():
        warnings.simplefilter("ignore")
        r = sut(lambda: g.skolemize(**kw).de_skolemize())
    if is_err(r):
        out.fail(("skolem-raises", r.kind, r.site), f"{case}: {r!r}")
        return out
    owner = {}
    for s_, _, o in r.triples((None, LBL, None)):
        owner.setdefault(int(o), set()).add(s_)
    bn = {x for t in r for x in (t[0], t[2]) if isinstance(x, BNode)}
    if len(r) != 2 * n or len(bn) != n or any(len(v) != 1 for v in owner.values()) or len(owner) != n:
        out.fail(("skolem-roundtrip-many-nodes", "node-count", str(mode)), f"{case}: {len(bn)} blank nodes and {len(r)} triples after the round trip, {n} and {2 * n} before")
        return out
    node_of = {i: next(iter(v)) for i, v in owner.items()}
    for i in range(n):
        if (node_of[i], NXT, node_of[(i + step) % n]) not in r:
            out.fail(("skolem-roundtrip-many-nodes", "links", str(mode)), f"{case}: the link from label {i} is gone")
            return out
    if any(not isinstance(x, BNode) for x in node_of.values()):
        out.fail(("skolem-roundtrip-many-nodes", "not-blank", str(mode)), str(case))
        return out
    out.nontrivial = n > 128
    out.cls("mode:%d" % mode, "n>128" if n > 128 else "n<=128")
    return out


def skolem_cases(tier):
    return st.fixed_dictionaries({"n": st.one_of(st.integers(2, 40), st.integers(129, 400 if tier == "thorough" else 260)), "step": st.integers(1, 7),
                                  "order": st.integers(0, 2), "mode": st.integers(0, 2), "labels": st.integers(0, 1)})


SUBCHECKS = [Sub("pairs", lambda tier: pairs(tier), run, {"quick": 3200, "thorough": 48000}),
             Sub("skolem", skolem_cases, run_skolem, {"quick": 320, "thorough": 4000})]
