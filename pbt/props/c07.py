"""C07 — RDF terms obey identity laws: equality, hashing, ordering, pickling, n3 text.

Sub-checks over generated terms (all kinds; literals over recognised datatypes with valid / invalid / non-normalised lexical
forms, language tags differing in case, nasty Unicode):
  eqhash : == is an equivalence agreeing with (kind, lexical, datatype, lower(lang)); != is its negation; equal => equal hash;
           equal terms collapse in sets, dict keys and graphs
  order  : different kinds compare bnode < variable < IRI < literal under < > <= >=; IRIs/bnodes/variables order as their strings;
           sorted() of any mixed list never raises, is a permutation, deterministic; without literals independent of input order
  pickle : pickle (protocols 2-5), copy, deepcopy, NodePickler give an equal term with the same lexical/datatype/language
  n3     : from_n3(t.n3()), Turtle parse and SPARQL parse of t.n3() give the same term"""
from __future__ import annotations

import re

import copy
import datetime
import decimal
import pickle

from hypothesis import strategies as st

import rdflib
from rdflib import BNode, Graph, Literal, URIRef, Variable
from rdflib.store import NodePickler
from rdflib.util import from_n3

from pbt.codec import T, key
from pbt.core import K, Out, Sub, is_err, sut
from pbt.gen import terms as gt

RULE = ("terms of every kind; literals: plain/lang (10 tags, mixed case)/typed (29 datatypes, canonical, non-canonical, invalid, unknown "
        "datatypes) over a nasty-character alphabet, plus normalize=False literals; each case carries 3 terms and independently built twins. "
        "Non-trivial = at least one member is a literal with datatype or language or contains a character outside [A-Za-z0-9]; "
        "distinct by SHA-1 of the case JSON.")
ASSUMPTIONS = ["literal-vs-literal order is not asserted to be total/transitive, only that sorted() does not raise",
               "<= and >= are asserted only when at least one side is not a literal",
               "SPARQL read-back is not asked for texts holding a backslash followed by uXXXX / UXXXXXXXX (SPARQL 19.2 replaces such sequences before parsing)",
               "n3 read-back compares with canonical(t) = Literal(str(t), lang, datatype): parsing re-normalises by documented design"]

KIND_RANK = {"b": 0, "v": 1, "u": 2, "l": 3}


def kind(t):
    return key(t)[0]


def canonical(t):
    if isinstance(t, Literal):
        return Literal(str(t), lang=t.language, datatype=t.datatype)
    return t


def twin(j, flip):
    """independently built structurally equal term (language tag case possibly changed)"""
    j = list(j)
    if j[0] == "l" and len(j) > 2 and j[2] and flip:
        j[2] = j[2].upper() if flip == 1 else j[2].lower()
    return T(j)


def run_eqhash(case):
    out = Out()
    ts = [T(j) for j in case["terms"]]
    tw = [twin(j, f) for j, f in zip(case["terms"], case["flip"])]
    allt = ts + tw
    out.nontrivial = any(k[0] == "l" and (k[2] or k[3]) or not str(k[1]).isalnum() for k in map(key, ts))
    for i, a in enumerate(allt):
        for j, b in enumerate(allt):
            e = sut(lambda: a == b)
            ne = sut(lambda: a != b)
            if is_err(e) or is_err(ne):
                out.fail(("eq-raises",), f"{a!r} {b!r} {e!r} {ne!r}")
                return out
            if not isinstance(e, bool) or not isinstance(ne, bool):
                out.fail(("eq-not-bool",), f"{a!r} == {b!r} -> {e!r}")
                return out
            want = key(a) == key(b)
            if e != want:
                out.fail(("eq-disagrees-with-identity-tuple", "false-positive" if e else "false-negative", kind(a) + kind(b)),
                         f"{a!r} == {b!r} is {e}; tuples {key(a)} {key(b)}")
                return out
            if ne == e:
                out.fail(("ne-not-negation",), f"{a!r} {b!r}: == {e} != {ne}")
                return out
            if (b == a) != e:
                out.fail(("eq-not-symmetric",), f"{a!r} {b!r}")
                return out
            if e:
                ha, hb = sut(hash, a), sut(hash, b)
                if is_err(ha) or is_err(hb) or ha != hb:
                    out.fail(("equal-but-different-hash", kind(a)), f"{a!r} {b!r}: {ha!r} {hb!r}")
                    return out
            out.sub_evals += 1
    # transitivity on the drawn triple and twins
    for a in allt:
        for b in allt:
            for c in allt:
                if a == b and b == c and not a == c:
                    out.fail(("eq-not-transitive",), f"{a!r} {b!r} {c!r}")
                    return out
    # collapse
    for a, b in zip(ts, tw):
        if len({a, b}) != 1 or len({a: 1, b: 2}) != 1:
            out.fail(("equal-terms-do-not-collapse", "set/dict", kind(a)), f"{a!r} {b!r}")
            return out
        g = Graph()
        s, p = URIRef("urn:s"), URIRef("urn:p")
        g.add((s, p, a)); g.add((s, p, b))
        if len(g) != 1:
            out.fail(("equal-terms-do-not-collapse", "graph", kind(a)), f"{a!r} {b!r}")
            return out
        if isinstance(a, (URIRef, BNode)):
            g2 = Graph(); g2.add((a, p, s)); g2.add((b, p, s))
            if len(g2) != 1:
                out.fail(("equal-terms-do-not-collapse", "graph-subject", kind(a)), f"{a!r} {b!r}")
                return out
    out.cls(*{"kind:" + kind(t) for t in ts})
    return out


def run_order(case):
    out = Out()
    ts = [T(j) for j in case["terms"]]
    out.nontrivial = len({kind(t) for t in ts}) >= 2
    for a in ts:
        for b in ts:
            ka, kb = kind(a), kind(b)
            res = {}
            for name, fn in (("<", lambda: a < b), (">", lambda: a > b), ("<=", lambda: a <= b), (">=", lambda: a >= b)):
                if ka == "l" and kb == "l" and name in ("<=", ">="):
                    continue
                r = sut(fn)
                if is_err(r):
                    if ka == "l" and kb == "l":
                        continue  # not claimed by the property
                    out.fail(("compare-raises", name, ka + kb, r.kind), f"{a!r} {name} {b!r}: {r!r}")
                    return out
                res[name] = r
            if ka == "l" and kb == "l" and a == b and (a.language or "") != (b.language or "") and (res.get("<") is True or res.get(">") is True):
                # the order between different literals is not part of the property, but two spellings of one language tag are one
                # term: it is not before or after itself (otherwise sorting equal terms depends on the order they came in)
                out.fail(("equal-literals-ordered", "language-case"), f"{a!r} == {b!r} but < is {res.get('<')} and > is {res.get('>')}")
                return out
            if ka != kb:
                lt = KIND_RANK[ka] < KIND_RANK[kb]
                exp = {"<": lt, ">": not lt, "<=": lt, ">=": not lt}
                for name, r in res.items():
                    if r is not exp[name] and r != exp[name]:
                        out.fail(("cross-kind-order", name, ka + kb), f"{a!r} {name} {b!r} = {r}, expected {exp[name]}")
                        return out
            elif ka != "l":
                sa, sb = str(a), str(b)
                exp = {"<": sa < sb, ">": sa > sb, "<=": sa <= sb, ">=": sa >= sb}
                for name, r in res.items():
                    if r != exp[name]:
                        out.fail(("same-kind-string-order", name, ka), f"{a!r} {name} {b!r} = {r}, expected {exp[name]}")
                        return out
            out.sub_evals += 1
    s1 = sut(sorted, ts)
    if is_err(s1):
        if sum(1 for t in ts if kind(t) == "l") >= 2:
            return out  # literal-vs-literal order is outside the property (e.g. NaN vs decimal raises)
        out.fail(("sorted-raises", s1.kind), f"{ts!r}: {s1!r}")
        return out
    if sorted(map(repr, s1)) != sorted(map(repr, ts)):
        out.fail(("sorted-not-a-permutation",), f"{ts!r} -> {s1!r}")
        return out
    s2 = sut(sorted, ts)
    if is_err(s2) or [key(x) for x in s2] != [key(x) for x in s1]:
        out.fail(("sorted-not-deterministic",), f"{ts!r}")
        return out
    # kinds appear in rank order
    ranks = [KIND_RANK[kind(x)] for x in s1]
    if ranks != sorted(ranks):
        out.fail(("sorted-kinds-out-of-order",), f"{s1!r}")
        return out
    nolit = [t for t in ts if kind(t) != "l"]
    a = sut(sorted, nolit)
    b = sut(sorted, list(reversed(nolit)))
    if is_err(a) or is_err(b) or [key(x) for x in a] != [key(x) for x in b]:
        out.fail(("sorted-depends-on-input-order",), f"{nolit!r}")
        return out
    if not is_err(a) and [key(x) for x in a] != [key(x) for x in sorted(nolit, key=lambda t: (KIND_RANK[kind(t)], str(t)))]:
        out.fail(("sorted-non-literals-not-by-kind-then-string",), f"{a!r}")
        return out
    return out


def same_term(a, b, strict=False):
    """same class and same identity tuple; strict (pickle/copy): derived attributes agree as well"""
    if type(a) is not type(b) or key(a) != key(b):
        return False
    if strict and isinstance(a, Literal):
        if a.ill_typed != b.ill_typed or (a.value is None) != (b.value is None):
            return False
    return True


def run_pickle(case):
    out = Out()
    for j in case["terms"]:
        t = T(j)
        k = key(t)
        out.nontrivial |= k[0] == "l" and bool(k[2] or k[3])
        nonnorm = len(j) > 4 and j[4] is False and key(canonical(t)) != k
        routes = [("pickle%d" % pr, (lambda pr=pr: pickle.loads(pickle.dumps(t, pr)))) for pr in (2, 3, 4, 5)]
        routes += [("copy", lambda: copy.copy(t)), ("deepcopy", lambda: copy.deepcopy(t)),
                   ("deepcopy-nested", lambda: copy.deepcopy([(t, {"k": t})])[0][0]),
                   ("nodepickler", lambda: (lambda np: np.loads(np.dumps(t)))(NodePickler()))]
        for name, fn in routes:
            r = sut(fn)
            if is_err(r):
                out.fail((name + "-raises", kind(t), r.kind), f"{t!r}: {r!r}")
                return out
            if not same_term(t, r):
                out.fail(("survives-changed", name.rstrip("2345"), kind(t), "non-normalised" if nonnorm else "normal"),
                         f"{name}: {t!r} -> {r!r}")
                return out
            if not (r == t) or hash(r) != hash(t):
                out.fail(("survives-unequal", name.rstrip("2345")), f"{name}: {t!r} -> {r!r}")
                return out
            if isinstance(t, Literal):
                # the copy is the same literal in value space too
                v1, v2 = sut(lambda: t.value), sut(lambda: r.value)
                plain = (int, float, decimal.Decimal, bool, str, bytes, datetime.date, datetime.time, datetime.datetime, datetime.timedelta, type(None))
                if not is_err(v1) and isinstance(v1, plain):
                    same_val = not is_err(v2) and type(v1) is type(v2) and (v1 == v2 or (v1 != v1 and v2 != v2))
                    if not same_val:
                        out.fail(("survives-value-changed", name.rstrip("2345"), kind(t)), f"{name}: {t!r} value {v1!r} -> {v2!r}")
                        return out
                    e0, e1 = sut(t.eq, t), sut(t.eq, r)
                    if not is_err(e0) and e0 is True and (is_err(e1) or e1 is not True):
                        out.fail(("survives-not-eq", name.rstrip("2345"), kind(t)), f"{name}: {t!r}.eq(copy) = {e1!r}")
                        return out
            out.sub_evals += 1
    return out


def run_n3(case):
    out = Out()
    for j in case["terms"]:
        t = T(j)
        k = key(t)
        out.nontrivial |= (k[0] == "l" and bool(k[2] or k[3])) or not str(k[1]).isalnum()
        want = canonical(t)
        text = sut(t.n3)
        if is_err(text):
            out.fail(("n3-raises", kind(t), text.kind), f"{t!r}: {text!r}")
            return out
        tab = isinstance(t, Literal) and "\t" in str(t)
        # from_n3
        r = sut(from_n3, text)
        if is_err(r):
            out.fail(("from_n3-raises", kind(t), r.kind), f"{t!r} n3={text!r}: {r!r}")
            return out
        if not (same_term(want, r) or same_term(t, r)):
            out.fail(("from_n3-differs", kind(t), feature(t)), f"{t!r} n3={text!r} -> {r!r}")
            return out
        out.sub_evals += 1
        if isinstance(t, Variable):
            continue
        # Turtle, object position (and subject position for IRIs / bnodes)
        doc = f"<urn:s> <urn:p> {text} ."
        g = sut(lambda: Graph().parse(data=doc, format="turtle"))
        if is_err(g):
            out.fail(("turtle-parse-raises", kind(t), feature(t)), f"{t!r} doc={doc!r}: {g!r}")
            return out
        objs = list(g.objects())
        if len(objs) != 1 or (not isinstance(t, BNode) and not (same_term(want, objs[0]) or same_term(t, objs[0]))) or (isinstance(t, BNode) and not isinstance(objs[0], BNode)):
            out.fail(("turtle-readback-differs", kind(t), feature(t)), f"{t!r} doc={doc!r} -> {objs!r}")
            return out
        if isinstance(t, URIRef):
            g = sut(lambda: Graph().parse(data=f"{text} <urn:p> <urn:o> .", format="turtle"))
            if is_err(g) or list(g.subjects()) != [t]:
                out.fail(("turtle-subject-readback-differs",), f"{t!r}: {g!r}")
                return out
        out.sub_evals += 1
        if isinstance(t, BNode):
            continue
        # SPARQL
        if K.skip("C07-sparql-tab-expansion", tab, out):
            continue
        if re.search(r"\\(u[0-9A-Fa-f]{4}|U[0-9A-Fa-f]{8})", str(t)):
            # the text itself holds a backslash followed by uXXXX: SPARQL replaces codepoint escapes in the whole query string before
            # it is parsed (19.2), also behind the doubled backslash that n3() writes, so this n3() text is not the term in SPARQL
            out.cls("sparql-codepoint-escape-in-text-skipped")
            continue
        q = f"SELECT ?x WHERE {{ VALUES ?x {{ {text} }} }}"
        r = sut(lambda: list(Graph().query(q)))
        if is_err(r):
            out.fail(("sparql-parse-raises", kind(t), feature(t)), f"{t!r} q={q!r}: {r!r}")
            return out
        if len(r) != 1 or not (same_term(want, r[0][0]) or same_term(t, r[0][0])):
            out.fail(("sparql-readback-differs", kind(t), feature(t)), f"{t!r} q={q!r} -> {r!r}")
            return out
        q = f"SELECT ({text} AS ?x) WHERE {{}}"
        r = sut(lambda: list(Graph().query(q)))
        if is_err(r) or len(r) != 1 or not (same_term(want, r[0][0]) or same_term(t, r[0][0])):
            out.fail(("sparql-select-expr-readback-differs", kind(t), feature(t)), f"{t!r} q={q!r} -> {r!r}")
            return out
        out.sub_evals += 1
    return out


def feature(t):
    if not isinstance(t, Literal):
        return "-"
    s = str(t)
    f = []
    if any(c in s for c in "\n\r"):
        f.append("newline")
    if "\t" in s:
        f.append("tab")
    if '"' in s:
        f.append("quote")
    if "\\" in s:
        f.append("backslash")
    if any(ord(c) < 32 and c not in "\n\r\t" or ord(c) == 127 for c in s):
        f.append("control")
    if any(ord(c) > 0xFFFF for c in s):
        f.append("nonbmp")
    return f[0] if f else ("typed" if t.datatype else "plain")


def term_strategy(nonnorm=True):
    opts = [gt.iris(), gt.iris(rich=False), gt.bnodes(), st.sampled_from(["a", "x1", "s", "o"]).map(lambda n: ["v", n]),
            gt.literals(noncanon=True, invalid=True), gt.literals(), gt.falsy_literals()]
    if nonnorm:
        opts.append(st.one_of(gt.typed_noncanon(), gt.typed_canon(), gt.typed_invalid()).map(lambda j: j + [False]))
    return st.one_of(*opts)


def strat3(tier):
    return st.fixed_dictionaries({"terms": st.lists(term_strategy(), min_size=3, max_size=3), "flip": st.lists(st.integers(0, 2), min_size=3, max_size=3)})


def strat_order(tier):
    return st.fixed_dictionaries({"terms": st.lists(term_strategy(), min_size=2, max_size=7)})


def strat_terms(tier):
    return st.fixed_dictionaries({"terms": st.lists(term_strategy(), min_size=1, max_size=4)})


SUBCHECKS = [
    Sub("eqhash", strat3, run_eqhash, {"quick": 16000, "thorough": 400000}, weight=4),
    Sub("order", strat_order, run_order, {"quick": 16000, "thorough": 400000}, weight=4),
    Sub("pickle", strat_terms, run_pickle, {"quick": 12000, "thorough": 300000}, weight=4),
    Sub("n3", strat_terms, run_n3, {"quick": 6000, "thorough": 150000}, weight=4),
]
