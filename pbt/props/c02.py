"""C02 — Dataset keeps named graphs isolated; the union view is the union of its graphs.

Generated histories of quad add/remove/remove-by-pattern/graph creation/removal and writes through previously
obtained views, on Dataset(default_union False/True) and ConjunctiveGraph, compared after every step with a
dict[name -> set of triples] model through quads(), graphs(), views, quad membership, triples(context=...),
the union/default view and SPARQL GRAPH queries on empty/unknown graphs."""
from __future__ import annotations

import itertools
import warnings

from hypothesis import strategies as st

from rdflib import BNode, ConjunctiveGraph, Dataset, Graph, URIRef
from rdflib.graph import DATASET_DEFAULT_GRAPH_ID

from pbt.codec import T, key, tkey
from pbt.core import Out, Sub, is_err, sut
from pbt.gen import terms as gt
from pbt.gen.util import sized_lists

RULE = ("histories of <=30 (quick) / <=60 (thorough) dataset operations over graph names {default, 2 IRIs, 1 blank node} (+1 never-created "
        "IRI for reads) and a 3x2x3 triple pool, on Dataset(default_union=False/True) and ConjunctiveGraph; full observation after every step. "
        "Non-trivial = a triple present in >=2 graphs is removed from exactly one, or a read is restricted to an existing-empty or unknown "
        "graph while another graph is non-empty; distinct by SHA-1 of the case JSON.")
ASSUMPTIONS = ["quads() may name the default graph None or urn:x-rdflib:default",
               "graphs(): every non-empty graph and the default graph are listed, no removed/never-created graph is listed; whether a graph "
               "emptied triple-by-triple is still listed is not asserted",
               "len(dataset) is only asserted for default_union=True (size of the union)",
               "Graph objects passed as graph argument belong to the dataset's own store"]

G1, G2, GB, GU = URIRef("urn:g1"), URIRef("urn:g2"), BNode("urn:g1"), URIRef("urn:unknown")  # bnode label equal to an IRI name on purpose
DEFAULT = "default"


def matches(pat, tk):
    return all(p is None or p == x for p, x in zip(pat, tk))


class World:
    def __init__(self, case):
        self.S = [T(j) for j in case["S"]] or [URIRef("urn:s")]
        self.P = [T(j) for j in case["P"]] or [URIRef("urn:p")]
        self.O = [T(j) for j in case["O"]] or [URIRef("urn:o")]
        cfg = case["cfg"]
        self.cfg = cfg
        with warnings.catch_warnings():
            warnings.simplefilter("ignore")
            if cfg == "cg":
                self.ds = ConjunctiveGraph()
                self.default_id = self.ds.default_context.identifier
            else:
                self.ds = Dataset(default_union=(cfg == "union"))
                self.default_id = DATASET_DEFAULT_GRAPH_ID
        self.union = cfg in ("cg", "union")
        self.names = [DEFAULT, G1, G2, GB]  # pool of writable names
        self.model = {DEFAULT: set()}  # name -> set of tkeys ; keys present = existing graphs
        self.views = []  # (name, Graph)
        self.extra_names = []  # skolem names created by graph(None)
        self.ever = set()  # ConjunctiveGraph only: remove_context is not required to forget the (empty) context

    def ident(self, name):
        return self.default_id if name == DEFAULT else name

    def name_of(self, ident):
        if ident is None or key(ident) == key(self.default_id):
            return DEFAULT
        return ident

    def gname(self, i):
        return self.names[i % len(self.names)]

    def garg(self, name, how):
        """graph argument: 0 Graph object on the same store, 1 identifier, 2 str (IRI names only)"""
        ident = self.ident(name)
        how = how % 3
        if how == 2 and isinstance(ident, URIRef):
            return str(ident)
        if how == 0:
            return Graph(store=self.ds.store, identifier=ident)
        return ident

    def t(self, j, wild=False):
        def pick(pool, i):
            return None if (wild and i < 0) else pool[i % len(pool)]
        return (pick(self.S, j[0]), pick(self.P, j[1]), pick(self.O, j[2]))

    def union_set(self):
        u = set()
        for s in self.model.values():
            u |= s
        return u


def nkey(name):
    return DEFAULT if name == DEFAULT else key(name)


def observe(w, out, where, full=True):
    ds = w.ds
    model = {nkey(n): v for n, v in w.model.items()}
    # 1. quads()
    q = sut(lambda: [(tkey(x[:3]), nkey(w.name_of(x[3]))) for x in ds.quads()])
    if is_err(q):
        out.fail(("quads-raises", q.kind, q.site), f"{where}: {q!r}")
        return False
    exp = {(tk, n) for n, s in model.items() for tk in s}
    if len(q) != len(set(q)):
        out.fail(("quads-duplicates",), f"{where}: {q}")
        return False
    if set(q) != exp:
        out.fail(("quads", "extra" if set(q) - exp else "missing"), f"{where}: extra={set(q) - exp} missing={exp - set(q)}")
        return False
    # 3. graphs()
    with warnings.catch_warnings():
        warnings.simplefilter("ignore")
        gs = sut(lambda: [nkey(w.name_of(g.identifier)) for g in (ds.graphs() if w.cfg != "cg" else ds.contexts())])
    if is_err(gs):
        out.fail(("graphs-raises", gs.kind, gs.site), f"{where}: {gs!r}")
        return False
    lower = {n for n, s in model.items() if s}
    if w.cfg != "cg":
        lower.add(DEFAULT)
    upper = set(model.keys()) | {nkey(n) for n in w.ever}
    if len(gs) != len(set(gs)):
        out.fail(("graphs-duplicates",), f"{where}: {gs}")
        return False
    if not lower <= set(gs):
        out.fail(("graphs", "missing"), f"{where}: graphs()={gs} must include {lower}")
        return False
    if not set(gs) <= upper:
        out.fail(("graphs", "lists-removed-or-unknown-graph"), f"{where}: graphs()={gs} but existing={upper}")
        return False
    # 3b. graphs(triple): exactly the graphs that hold the triple (a present one and an absent one)
    if w.cfg != "cg":
        present = sorted(exp, key=repr)[:1]
        probes = [(w.S[0], w.P[0], w.O[0])] + [next(t for t in ds.quads() if (tkey(t[:3]), nkey(w.name_of(t[3]))) == present[0])[:3]] if present else [(w.S[0], w.P[0], w.O[0])]
        for t3 in probes:
            tk3 = tkey(t3)
            want_g = {n for n, st_ in model.items() if tk3 in st_}
            got_g = sut(lambda: [nkey(w.name_of(g.identifier)) for g in ds.graphs(t3)])
            if is_err(got_g):
                out.fail(("graphs(triple)-raises", got_g.kind, got_g.site), f"{where}: {got_g!r}")
                return False
            if set(got_g) != want_g or len(got_g) != len(set(got_g)):
                out.fail(("graphs(triple)", "extra" if set(got_g) - want_g else "missing"), f"{where}: graphs({t3}) = {got_g}, held by {want_g}")
                return False
    # per-name observations
    allnames = list(w.names) + w.extra_names + [GU]
    others_nonempty = any(model.values())
    for name in allnames:
        nk = nkey(name)
        mset = model.get(nk, set())
        tag = "default" if name == DEFAULT else ("unknown" if nk not in model else ("empty" if not mset else "nonempty"))
        ident = w.ident(name)
        # 4. fresh view
        v = Graph(store=ds.store, identifier=ident)
        r = sut(lambda: ({tkey(t) for t in v}, len(v)))
        if is_err(r):
            out.fail(("view-raises", r.kind, r.site), f"{where}: {r!r}")
            return False
        if r[0] != mset or r[1] != len(mset):
            out.fail(("view", tag), f"{where}: view of {name}: {r} expected {mset}")
            return False
        for how in (0, 1):
            ga = w.garg(name, how)
            hw = "obj" if how == 0 else "id"
            # 2. quads with graph
            r = sut(lambda: [(tkey(x[:3]), nkey(w.name_of(x[3]))) for x in ds.quads((None, None, None, ga))])
            if is_err(r):
                out.fail(("quads-g-raises", r.kind, r.site), f"{where}: {name} {r!r}")
                return False
            # quads() with a graph in the pattern: an existing test (test_aggregate2) pins that, for a triple held by several graphs,
            # the quads of the other graphs are yielded too. Asserted: every quad of that graph is yielded exactly once, every yielded
            # quad is a true quad of the dataset, and a triple not in that graph is never yielded.
            expq = {(tk, nk) for tk in mset}
            if not expq <= set(r) or len(r) != len(set(r)):
                out.fail(("quads-g", tag, hw, "missing/dup"), f"{where}: quads(*,*,*,{name}) = {r} expected at least {expq}")
                return False
            if not set(r) <= exp or any(tk not in mset for tk, _ in r):
                out.fail(("quads-g", tag, hw, "untrue-quad"), f"{where}: quads(*,*,*,{name}) = {r}; graph has {mset}")
                return False
            # 6. triples(context=)
            r = sut(lambda: [tkey(t) for t in ds.triples((None, None, None), context=ga if how == 0 else Graph(store=ds.store, identifier=ident))])
            if is_err(r):
                out.fail(("triples-ctx-raises", r.kind, r.site), f"{where}: {name} {r!r}")
                return False
            exp_t = mset if not (w.union and name == DEFAULT) else w.union_set()
            if set(r) != exp_t or len(r) != len(set(r)):
                out.fail(("triples-ctx", tag, hw), f"{where}: triples(context={name}) = {r} expected {exp_t}")
                return False
            r = sut(lambda: [tkey(t) for t in ds.triples((None, None, None, ga))])
            if is_err(r):
                out.fail(("triples-quadpat-raises", r.kind, r.site), f"{where}: {name} {r!r}")
                return False
            if set(r) != exp_t or len(r) != len(set(r)):
                out.fail(("triples-quadpat", tag, hw), f"{where}: triples((*,*,*,{name})) = {r} expected {exp_t}")
                return False
            out.sub_evals += 3
            if not full:
                continue
            # 5. quad membership for every pool triple
            for t in itertools.product(w.S, w.P, w.O):
                r = sut(lambda: t + (ga,) in ds)
                if is_err(r):
                    out.fail(("contains4-raises", r.kind, r.site), f"{where}: {t} {name} {r!r}")
                    return False
                e = tkey(t) in exp_t
                if r != e:
                    out.fail(("contains4", tag, hw, "false-positive" if r else "false-negative"), f"{where}: ({t},{name}) in ds = {r}")
                    return False
        if tag in ("empty", "unknown") and others_nonempty:
            out.nontrivial = True
    # live views obtained earlier
    for name, v in w.views:
        mset = model.get(nkey(name), set())
        r = sut(lambda: ({tkey(t) for t in v}, len(v)))
        if is_err(r) or r[0] != mset or r[1] != len(mset):
            out.fail(("old-view",), f"{where}: old view of {name}: {r} expected {mset}")
            return False
    # 7. union / default view
    exp_v = w.union_set() if w.union else model[DEFAULT]
    for s in [None] + w.S[:2]:
        for o in [None] + w.O[:2]:
            pat = (s, None, o)
            pk = tuple(None if x is None else key(x) for x in pat)
            r = sut(lambda: [tkey(t) for t in ds.triples(pat)])
            if is_err(r):
                out.fail(("triples-raises", r.kind, r.site), f"{where}: {r!r}")
                return False
            e = {tk for tk in exp_v if matches(pk, tk)}
            if set(r) != e or len(r) != len(e):
                out.fail(("merged-view" if w.union else "default-view", "dup" if len(r) != len(set(r)) else "set"), f"{where}: triples({pat}) = {r} expected {e}")
                return False
    for t in itertools.product(w.S, w.P, w.O):
        r = sut(lambda: t in ds)
        if is_err(r) or r != (tkey(t) in exp_v):
            out.fail(("contains3",), f"{where}: {t} in ds = {r!r}")
            return False
    if w.union:
        r = sut(len, ds)
        if is_err(r) or r != len(exp_v):
            out.fail(("len-union",), f"{where}: len={r!r} expected {len(exp_v)}")
            return False
    return True


def sparql_check(w, out, where):
    ds = w.ds
    model = {nkey(n): v for n, v in w.model.items()}
    for name in (G1, G2, GU):
        r = sut(lambda: [tkey((row[0], row[1], row[2])) for row in ds.query("SELECT ?s ?p ?o { GRAPH <%s> { ?s ?p ?o } }" % name)])
        if is_err(r):
            out.fail(("sparql-raises", r.kind, r.site), f"{where}: {r!r}")
            return False
        e = model.get(nkey(name), set())
        if set(r) != e or len(r) != len(e):
            tag = "unknown" if nkey(name) not in model else ("empty" if not e else "nonempty")
            out.fail(("sparql-graph", tag), f"{where}: GRAPH <{name}> = {r} expected {e}")
            return False
    return True


def run(case):
    out = Out()
    w = World(case)
    ds = w.ds
    for step, op in enumerate(case["ops"]):
        name = op[0]
        where = f"[{w.cfg}] step {step} {op}"
        r = None
        if name == "add3":
            t = w.t(op[1:4])
            r = sut(ds.add, t)
            w.model[DEFAULT].add(tkey(t))
        elif name == "add4":
            t = w.t(op[1:4]); gn = w.gname(op[4])
            # (the default graph of a Dataset also as "no graph": an optional quad whose fourth member is None)
            garg = None if (op[5] == 3 and gn == DEFAULT and w.cfg != "cg") else w.garg(gn, op[5])
            r = sut(ds.add, t + (garg,))
            w.model.setdefault(gn, set()).add(tkey(t))
        elif name in ("addN", "iadd"):
            if name == "iadd" and w.cfg == "cg":
                continue
            quads = []
            for q in op[1]:
                t = w.t(q[:3]); gn = w.gname(q[3])
                quads.append(t + (w.garg(gn, 0 if name == "addN" else q[3] // 4),))
                w.model.setdefault(gn, set()).add(tkey(t))
            r = sut(ds.addN if name == "addN" else ds.__iadd__, quads)
        elif name == "rm3":
            pat = w.t(op[1:4], wild=True)
            pk = tuple(None if x is None else key(x) for x in pat)
            holders = [n for n, s in w.model.items() if any(matches(pk, tk) for tk in s)]
            for n in w.model:
                w.model[n] = {tk for tk in w.model[n] if not matches(pk, tk)}
            r = sut(ds.remove, pat)
        elif name == "rm4":
            pat = w.t(op[1:4], wild=True); gn = w.gname(op[4])
            pk = tuple(None if x is None else key(x) for x in pat)
            if gn in w.model:
                gone = {tk for tk in w.model[gn] if matches(pk, tk)}
                if any(tk in s for tk in gone for n, s in w.model.items() if n != gn):
                    out.nontrivial = True
                w.model[gn] -= gone
            garg = w.garg(gn, op[5])
            if op[5] == 4:
                # a Graph of another store that has the name and triples of its own: it only says where to remove from
                garg = Graph(identifier=w.ident(gn))
                garg.add(w.t([0, 0, 0]))
                garg.add(w.t([1, 0, 1]))
            r = sut(ds.remove, pat + (garg,))
        elif name == "graph":
            gn = w.gname(op[1])
            if w.cfg == "cg":
                continue
            r = sut(ds.graph, w.garg(gn, op[2]))
            w.model.setdefault(gn, set())
            if not is_err(r):
                if key(r.identifier) != key(w.ident(gn)):
                    out.fail(("graph-returns-wrong-name",), f"{where}: {r.identifier}")
                    return out
                w.views.append((gn, r))
        elif name == "graph_none":
            if w.cfg == "cg" or len(w.extra_names) >= 2:
                continue
            r = sut(ds.graph)
            if not is_err(r):
                w.extra_names.append(r.identifier)
                w.model.setdefault(r.identifier, set())
                w.views.append((r.identifier, r))
        elif name == "rmgraph":
            pool = w.names + [GU]
            gn = pool[op[1] % len(pool)]
            ga = w.garg(gn, op[2])
            if w.cfg == "cg":
                if not isinstance(ga, Graph):
                    ga = Graph(store=ds.store, identifier=URIRef(ga) if not isinstance(ga, (URIRef, BNode)) else ga)
                r = sut(ds.remove_context, ga)
                w.ever.add(gn)
            else:
                r = sut(ds.remove_graph, ga)
            if gn == DEFAULT:
                w.model[DEFAULT] = set()
            else:
                w.model.pop(gn, None)
        elif name == "view_new":
            gn = w.gname(op[1])
            w.views.append((gn, Graph(store=ds.store, identifier=w.ident(gn))))
            continue
        elif name == "view_add":
            if not w.views:
                continue
            gn, v = w.views[op[1] % len(w.views)]
            t = w.t(op[2:5])
            r = sut(v.add, t)
            w.model.setdefault(gn, set()).add(tkey(t))
        elif name == "view_rm":
            if not w.views:
                continue
            gn, v = w.views[op[1] % len(w.views)]
            pat = w.t(op[2:5], wild=True)
            pk = tuple(None if x is None else key(x) for x in pat)
            if gn in w.model:
                gone = {tk for tk in w.model[gn] if matches(pk, tk)}
                if any(tk in s for tk in gone for n, s in w.model.items() if n != gn):
                    out.nontrivial = True
                w.model[gn] -= gone
            r = sut(v.remove, pat)
        else:
            continue
        if is_err(r):
            out.fail((name + "-raises", r.kind, r.site), f"{where}: {r!r}")
            return out
        if not observe(w, out, where, full=(step % 3 == 0 or step == len(case["ops"]) - 1)):
            return out
    if not sparql_check(w, out, f"[{w.cfg}] end"):
        return out
    out.cls("cfg:" + w.cfg, *{"op:" + op[0] for op in case["ops"]})
    return out


def strategy(tier):
    big = tier == "thorough"
    si, pi, oi = st.integers(0, 2), st.integers(0, 1), st.integers(0, 2)
    wsi, wpi, woi = st.integers(-1, 2), st.integers(-1, 1), st.integers(-1, 2)
    gi, how = st.integers(0, 3), st.integers(0, 2)
    op = st.one_of(
        st.tuples(st.just("add3"), si, pi, oi),
        st.tuples(st.just("add4"), si, pi, oi, gi, how),
        st.tuples(st.just("add4"), si, pi, oi, gi, st.integers(0, 3)),
        st.tuples(st.just("addN"), st.lists(st.tuples(si, pi, oi, gi).map(list), max_size=3)),
        st.tuples(st.just("iadd"), st.lists(st.tuples(si, pi, oi, st.integers(0, 11)).map(list), max_size=3)),
        st.tuples(st.just("rm3"), wsi, wpi, woi),
        st.tuples(st.just("rm4"), wsi, wpi, woi, gi, how),
        st.tuples(st.just("rm4"), si, pi, oi, gi, st.integers(0, 4)),
        st.tuples(st.just("graph"), gi, how),
        st.tuples(st.just("graph_none")),
        st.tuples(st.just("rmgraph"), st.integers(0, 4), how),
        st.tuples(st.just("view_new"), gi),
        st.tuples(st.just("view_add"), st.integers(0, 5), si, pi, oi),
        st.tuples(st.just("view_rm"), st.integers(0, 5), wsi, wpi, woi),
    ).map(list)
    subj = st.one_of(gt.iris(rich=False), gt.bnodes())
    obj = st.one_of(gt.iris(rich=False), gt.bnodes(), gt.literals(), gt.falsy_literals())
    uniq = lambda j: tuple(map(str, j))  # noqa: E731
    return st.fixed_dictionaries({
        "cfg": st.sampled_from(["plain", "union", "cg"]),
        "S": st.lists(subj, min_size=2, max_size=3, unique_by=uniq),
        "P": st.lists(gt.iris(rich=False), min_size=1, max_size=2, unique_by=uniq),
        "O": st.lists(obj, min_size=2, max_size=3, unique_by=uniq),
        "ops": sized_lists(op, 1, 60 if big else 30),
    })


SUBCHECKS = [Sub("history", strategy, run, {"quick": 8000, "thorough": 160000})]
