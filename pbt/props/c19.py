"""C19 — An RDF Collection behaves like the Python list it represents.

Histories of list operations are generated as data (op lists over a member pool), applied to a
rdflib Collection and to a Python list; after every step results/exceptions are compared and the
rdf:first/rdf:rest chain is checked for well-formedness and absence of orphaned cells.
Second sub-check: reads on broken chains must raise or return within a graph-read step limit."""
from __future__ import annotations

from hypothesis import strategies as st

from rdflib import RDF, BNode, Graph, Literal, URIRef
from rdflib.collection import Collection

from pbt.codec import T, key, tkey
from pbt.core import HarnessStepLimit, K, Out, Sub, counting_graph_class, is_err, sut
from pbt.gen.util import sized_lists

RULE = ("histories: op lists (append, +=, c += c, += of an iterable that raises part-way, c[i]=v, del c[i], clear, len, iter, c[i], index, in, n3) over a pool of 8 members "
        "incl. Literal(0)/Literal('')/Literal(False) and duplicates, start length 0-4, head bnode or IRI, indexes 0..len+1; "
        "broken: chains with cyclic/duplicate/missing rdf:rest or missing rdf:first. Non-trivial = history has a delete at "
        "index 0 or len-1, an operation on a falsy member, or an out-of-range index (broken: any structural defect); "
        "distinct by SHA-1 of the case JSON.")
ASSUMPTIONS = ["negative indexes are not generated (not documented for Collection)",
               "index() of an absent member raises ValueError on every well-formed list, the empty one included",
               "non-termination is detected by a bound on Graph.triples() calls, not wall clock"]

MEMBERS = [["l", "0", None, "http://www.w3.org/2001/XMLSchema#integer"], ["l", "", None, None],
           ["l", "false", None, "http://www.w3.org/2001/XMLSchema#boolean"], ["l", "a", None, None],
           ["l", "1", None, "http://www.w3.org/2001/XMLSchema#integer"], ["u", "urn:x"], ["b", "m"], ["l", "a", "en", None]]
FALSY = {0, 1, 2}
UNRELATED = [(URIRef("urn:s"), URIRef("urn:p"), Literal(0)), (URIRef("urn:s"), RDF.type, RDF.List),
             (BNode("m"), URIRef("urn:p"), URIRef("urn:x")), (URIRef("urn:x"), URIRef("urn:p"), Literal(""))]

CG = counting_graph_class(Graph)


def M(i):
    return T(MEMBERS[i % len(MEMBERS)])


def chain_state(g, head):
    """Walk the chain from head. Returns (members, cells, problem|None)."""
    members, cells = [], []
    node = head
    seen = set()
    if node != RDF.nil and not list(g.predicate_objects(node)):
        return [], [], None  # empty collection without triples
    while node != RDF.nil:
        if node in seen:
            return members, cells, "cycle"
        seen.add(node)
        firsts = list(g.objects(node, RDF.first))
        rests = list(g.objects(node, RDF.rest))
        if len(firsts) != 1:
            return members, cells, f"cell#{len(cells)} has {len(firsts)} rdf:first"
        if len(rests) != 1:
            return members, cells, f"cell#{len(cells)} has {len(rests)} rdf:rest"
        members.append(firsts[0])
        cells.append(node)
        node = rests[0]
    return members, cells, None


def snapshot(g):
    return sorted((tkey(t) for t in g), key=repr)


def run_ops(case):
    out = Out()
    g = CG()
    head = T(case["head"])
    extra = []
    if case.get("other"):
        for t in UNRELATED:
            g.add(t)
        Collection(g, BNode("other"), [M(3), M(0), M(5)])
        extra = snapshot(g)
    init = [M(i) for i in case["init"]]
    c = sut(Collection, g, head, list(init))
    if is_err(c):
        out.fail(("init-raises", c.kind, c.site), repr(c))
        return out
    model = list(init)
    nt = False
    g.arm(None)
    for step, op in enumerate(case["ops"]):
        name = op[0]
        g.arm(200 * (len(g) + 2))
        exp_exc = None
        exp = None
        got = None
        mutating = name in ("append", "iadd", "iadd-self", "iadd-raising", "set", "del", "clear")
        try:
            if name == "append":
                m = M(op[1]); nt |= (op[1] % len(MEMBERS)) in FALSY
                model.append(m)
                got = sut(c.append, m)
                exp = "self"
            elif name == "iadd":
                ms = [M(i) for i in op[1]]; nt |= any((i % len(MEMBERS)) in FALSY for i in op[1])
                model += ms
                got = sut(c.__iadd__, list(ms))
                exp = "self"
            elif name == "iadd-self":
                # c += c: a list doubles itself
                nt = True
                model += list(model)
                got = sut(c.__iadd__, c)
                exp = "self"
            elif name == "iadd-raising":
                # an iterable that fails part-way: a list keeps what it got before that and stays a list
                ms = [M(i) for i in op[1]]
                nt = True

                def failing():
                    yield from ms
                    raise _Boom()
                model += ms
                got = sut(c.__iadd__, failing())
                exp_exc = _Boom
            elif name == "set":
                i, m = op[1], M(op[2])
                if K.skip("C19-setitem-at-len", i == len(model), out):
                    continue  # recorded finding: c[len(c)] = v writes onto rdf:nil / a bare head (pinned by an existing test)
                nt |= i >= len(model) or i < 0 or (op[2] % len(MEMBERS)) in FALSY
                if i >= len(model) or i < -len(model):
                    exp_exc = IndexError
                else:
                    model[i] = m
                got = sut(c.__setitem__, i, m)
            elif name == "del":
                i = op[1]
                nt |= i >= len(model) or i == 0 or i == len(model) - 1 or i < 0
                if i >= len(model) or i < -len(model):
                    exp_exc = IndexError
                else:
                    del model[i]
                got = sut(c.__delitem__, i)
            elif name == "clear":
                model.clear()
                got = sut(c.clear)
                exp = "self"
            elif name == "len":
                exp = len(model)
                got = sut(len, c)
            elif name == "iter":
                exp = [key(x) for x in model]
                got = sut(lambda: [key(x) for x in c])
            elif name == "get":
                i = op[1]
                nt |= i >= len(model) or i < 0 or (0 <= i < len(model) and not model[i])
                if i >= len(model) or i < -len(model):
                    exp_exc = IndexError
                else:
                    exp = key(model[i])
                got = sut(c.__getitem__, i)
                if not is_err(got):
                    got = key(got)
            elif name == "index":
                m = M(op[1]); nt |= (op[1] % len(MEMBERS)) in FALSY
                if m in model:
                    exp = model.index(m)
                else:
                    exp_exc = ValueError
                got = sut(c.index, m)
            elif name == "in":
                m = M(op[1]); nt |= (op[1] % len(MEMBERS)) in FALSY
                exp = m in model
                got = sut(lambda: m in c)
            elif name == "n3":
                exp = "( %s )" % " ".join(x.n3() for x in model)
                got = sut(c.n3)
            else:
                continue
        finally:
            g.disarm()
        where = f"step {step} {op} model_before_len={len(model)}"
        if exp_exc is not None:
            if not is_err(got):
                out.fail((name, "no-exception", exp_exc.__name__), f"{where}: expected {exp_exc.__name__}, returned {got!r}")
                return out
            if isinstance(got.exc, HarnessStepLimit):
                out.fail((name, "nonterminating"), where)
                return out
            if not isinstance(got.exc, exp_exc):
                out.fail((name, "wrong-exception", got.kind, exp_exc.__name__), f"{where}: expected {exp_exc.__name__}, got {got!r}")
                return out
        else:
            if is_err(got):
                out.fail((name, "raises", got.kind, got.site), f"{where}: {got!r}")
                return out
            if exp == "self":
                if got is not c:
                    out.fail((name, "does-not-return-self"), where)
                    return out
            elif exp is not None and got != exp:
                out.fail((name, "wrong-result"), f"{where}: expected {exp!r} got {got!r}")
                return out
        if mutating:
            members, cells, problem = chain_state(g, head)
            if problem:
                out.fail((name, "malformed-chain", problem.split("#")[0]), f"{where}: {problem}; graph={snapshot(g)}")
                return out
            if [key(x) for x in members] != [key(x) for x in model]:
                out.fail((name, "members-differ"), f"{where}: chain={members!r} model={model!r}")
                return out
            if list(g.predicate_objects(RDF.nil)):
                out.fail((name, "nil-has-properties"), where)
                return out
            rest = [t for t in snapshot(g)]
            expect_n = len(extra) + 2 * len(model)
            if len(rest) != expect_n:
                out.fail((name, "orphans-or-lost-triples"), f"{where}: graph has {len(rest)} triples, expected {expect_n}: {rest}")
                return out
            if extra and not set(extra) <= set(rest):
                out.fail((name, "unrelated-triples-changed"), where)
                return out
    out.nontrivial = nt
    out.cls(*{op[0] for op in case["ops"]})
    return out


def build_broken(case):
    """chain of n cells b0..b(n-1) with members; then apply the defect."""
    g = CG()
    n = max(1, case["n"])
    cells = [BNode(f"c{i}") for i in range(n)]
    for i, cnode in enumerate(cells):
        g.add((cnode, RDF.first, M(case["members"][i % len(case["members"])] if case["members"] else 3)))
        g.add((cnode, RDF.rest, cells[i + 1] if i + 1 < n else RDF.nil))
    d = case["defect"]
    k = d[1] % n
    if d[0] == "cycle":
        j = d[2] % (k + 1)
        g.remove((cells[k], RDF.rest, None))
        g.add((cells[k], RDF.rest, cells[j]))
    elif d[0] == "two-rest":
        g.add((cells[k], RDF.rest, cells[d[2] % n]))
    elif d[0] == "no-first":
        g.remove((cells[k], RDF.first, None))
    elif d[0] == "no-rest":
        g.remove((cells[k], RDF.rest, None))
    elif d[0] == "two-first":
        g.add((cells[k], RDF.first, M(d[2])))
    return g, cells[0]


def run_broken(case):
    out = Out()
    g, head = build_broken(case)
    c = Collection(g, head)
    before = snapshot(g)
    reads = {
        "len": lambda: len(c), "iter": lambda: list(c), "get": lambda: c[case["i"]],
        "get-last": lambda: c[-1], "get-from-end": lambda: c[-(case["i"] + 1)],
        "index-absent": lambda: c.index(URIRef("urn:absent")), "index-present": lambda: c.index(M(case["members"][0] if case["members"] else 3)),
        "in": lambda: URIRef("urn:absent") in c, "n3": lambda: c.n3(),
    }
    for name, fn in reads.items():
        g.arm(100 * (len(g) + 2) ** 2)
        try:
            r = sut(fn)
        finally:
            g.disarm()
        if is_err(r) and isinstance(r.exc, HarnessStepLimit):
            out.fail((name, "nonterminating", case["defect"][0]), f"{name} on {case}: exceeded read limit")
        out.sub_evals += 1
    if snapshot(g) != before:
        out.fail(("read-mutates",), str(case))
    out.nontrivial = True
    out.cls("defect:" + case["defect"][0])
    return out


class _Boom(Exception):
    pass


def ops_strategy(tier):
    big = tier == "thorough"
    mi = st.integers(0, len(MEMBERS) - 1)
    idx = st.one_of(st.integers(0, 7 if big else 6), st.integers(0, 7 if big else 6), st.integers(-7, -1))  # negative: from the end, like a list
    op = st.one_of(
        st.tuples(st.just("append"), mi), st.tuples(st.just("iadd"), st.lists(mi, max_size=3)),
        st.tuples(st.just("set"), idx, mi), st.tuples(st.just("del"), idx), st.tuples(st.just("del"), st.integers(0, 1)),
        st.tuples(st.just("clear")), st.tuples(st.just("iadd-self")), st.tuples(st.just("iadd-raising"), st.lists(mi, max_size=2)),
        st.tuples(st.just("len")), st.tuples(st.just("iter")), st.tuples(st.just("get"), idx), st.tuples(st.just("index"), mi),
        st.tuples(st.just("in"), mi), st.tuples(st.just("n3")),
    ).map(list)
    return st.fixed_dictionaries({
        "head": st.sampled_from([["b", "h"], ["u", "urn:head"]]),
        "init": st.lists(mi, max_size=4),
        "other": st.booleans(),
        "ops": sized_lists(op, 1, 50 if big else 25),
    })


def broken_strategy(tier):
    return st.fixed_dictionaries({
        "n": st.integers(1, 6), "members": st.lists(st.integers(0, 7), min_size=1, max_size=6),
        "defect": st.tuples(st.sampled_from(["cycle", "two-rest", "no-first", "no-rest", "two-first"]), st.integers(0, 5), st.integers(0, 5)).map(list),
        "i": st.integers(0, 8),
    })


SUBCHECKS = [
    Sub("ops", ops_strategy, run_ops, {"quick": 48000, "thorough": 1200000}, weight=14),
    Sub("broken", broken_strategy, run_broken, {"quick": 4000, "thorough": 60000}, weight=2),
]
