"""Independent bottom-up evaluator for a fragment of the SPARQL 1.1 algebra (sections 17, 18.5, 18.6), over the harness's own AST.

Terms are identity tuples (pbt.codec.key form): ("u", iri) | ("b", id) | ("l", lex, datatype|None, lang|None).
A solution is a dict var -> term. A multiset is a list of solutions.
Dataset: {"default": set(triples), "named": {name_term: set(triples)}}; the active default graph may be the union (config).

`Grey` is raised where the specification's outcome depends on extension points (comparing literals of different families or of
unknown datatypes, division by zero ...): the caller then skips the case instead of guessing.

Pattern AST:
  ["bgp", [[s,p,o],...]]  terms are ["v",name] or a JSON term           ["join", A, B]   ["opt", A, B, expr|None]
  ["union", A, B]  ["minus", A, B]  ["filter", expr, A]  ["bind", A, expr, var]  ["values", [vars], [[term|None,...],...]]
  ["sub", vars|None, distinct, A, order|None, limit|None, offset|None]         ["graph", term_or_var, A]
  ["group", [keys], [[var, agg, expr|None, distinct, sep], ...], A, having|None]   (keys: ["v",name] or [expr, alias])
Expressions: ["var",n] ["const",term] ["=",a,b] "!=" "<" ">" "<=" ">=" "&&" "||" ["!",a] "+" "-" "*" "/" ["neg",a] ["bound",n]
  ["coalesce",[..]] ["if",a,b,c] ["isIRI",a] "isBlank" "isLiteral" "isNumeric" ["str",a] ["lang",a] ["datatype",a] ["sameTerm",a,b]
  ["in",a,[..]] ["notin",a,[..]] ["exists",P] ["notexists",P]
"""
from __future__ import annotations

from collections import Counter
from decimal import Decimal, InvalidOperation

XSD = "http://www.w3.org/2001/XMLSchema#"
INT, DEC, DBL, BOOL, STR = XSD + "integer", XSD + "decimal", XSD + "double", XSD + "boolean", XSD + "string"
NUMERIC = {INT: 0, DEC: 1, DBL: 3, XSD + "float": 2}


class Grey(Exception):
    """outcome not pinned down by the specification for this harness's purposes"""


class ExprError(Exception):
    """SPARQL expression evaluation error (type error etc.)"""


def jterm(j):
    """JSON term -> identity tuple"""
    if j[0] == "l":
        lang = j[2] if len(j) > 2 else None
        dt = j[3] if len(j) > 3 else None
        return ("l", j[1], dt, lang.lower() if lang else None)
    return (j[0], j[1])


def is_var(x):
    return isinstance(x, (list, tuple)) and x[0] == "v"


# ---------------------------------------------------------------- values
def family(t):
    if t[0] != "l":
        return "iri" if t[0] == "u" else "bnode"
    dt, lang = t[2], t[3]
    if lang:
        return "lang"
    if dt is None or dt == STR:
        return "string"
    if dt in NUMERIC:
        return "numeric"
    if dt == BOOL:
        return "boolean"
    return "other:" + dt


def num(t):
    if t[0] != "l" or t[2] not in NUMERIC:
        raise ExprError("not numeric")
    try:
        if t[2] == INT:
            return int(t[1])
        if t[2] == DEC:
            return Decimal(t[1])
        return float(t[1])
    except (ValueError, InvalidOperation):
        raise Grey("ill-typed numeric")


def mk_num(v, dt):
    from rdflib import Literal, URIRef  # term constructor only: carries the computed value into RDFLib's lexical normal form
    lit = Literal(v, datatype=URIRef(dt))
    return ("l", str(lit), dt, None)


def mk_bool(b):
    return ("l", "true" if b else "false", BOOL, None)


def mk_str(s):
    return ("l", s, None, None)


def ebv(t):
    if t[0] != "l":
        raise ExprError("EBV of non-literal")
    fam = family(t)
    if fam == "boolean":
        if t[1] in ("true", "1"):
            return True
        if t[1] in ("false", "0"):
            return False
        return False
    if fam in ("string", "lang"):
        # 17.2.2: plain literals (with or without language tag) and xsd:string: false iff zero length
        return len(t[1]) > 0
    if fam == "numeric":
        try:
            v = num(t)
        except Grey:
            return False
        return not (v == 0 or v != v)
    raise ExprError("EBV undefined")


def promote(a, b):
    if a[0] != "l" or b[0] != "l" or a[2] not in NUMERIC or b[2] not in NUMERIC:
        raise ExprError("numeric operands required")
    ra, rb = NUMERIC[a[2]], NUMERIC[b[2]]
    r = max(ra, rb)
    dt = {0: INT, 1: DEC, 2: XSD + "float", 3: DBL}[r]
    va, vb = num(a), num(b)
    if r >= 2:
        return float(va), float(vb), dt
    if r == 1:
        return Decimal(va), Decimal(vb), dt
    return va, vb, dt


def rdfterm_equal(a, b):
    if a == b:
        return True
    fa, fb = family(a), family(b)
    if a[0] != "l" or b[0] != "l":
        return False
    if fa == "numeric" and fb == "numeric":
        va, vb, _ = promote(a, b)
        return va == vb
    if fa == fb == "string":
        return a[1] == b[1]
    if fa == fb == "boolean":
        return ebv(a) == ebv(b)
    if fa == fb == "lang":
        return a[1] == b[1] and a[3] == b[3]
    # two different literals that are not comparable value-wise: type error per spec; engines differ -> grey
    raise Grey("equality of literals from different families / unknown datatypes")


def compare(op, a, b):
    fa, fb = family(a), family(b)
    if fa == fb == "numeric":
        va, vb, _ = promote(a, b)
    elif fa == fb == "string":
        va, vb = a[1], b[1]
    elif fa == fb == "boolean":
        va, vb = ebv(a), ebv(b)
    else:
        raise Grey("ordering of terms from different families")
    return {"<": va < vb, ">": va > vb, "<=": va <= vb, ">=": va >= vb}[op]


def arith(op, a, b):
    va, vb, dt = promote(a, b)
    if op == "+":
        r = va + vb
    elif op == "-":
        r = va - vb
    elif op == "*":
        r = va * vb
    else:
        if vb == 0:
            raise Grey("division by zero")
        if dt == INT:
            dt = DEC
            r = Decimal(va) / Decimal(vb)
            if r != r.quantize(Decimal("0.0001")):
                raise Grey("non-terminating decimal quotient")
        else:
            r = va / vb
    if isinstance(r, float) and (r != r or r in (float("inf"), float("-inf")) or abs(r) > 1e15):
        raise Grey("non-finite or huge double")
    return mk_num(r, dt)


# ---------------------------------------------------------------- expressions
def eval_expr(e, mu, env):
    k = e[0]
    if k == "var":
        if e[1] not in mu:
            raise ExprError("unbound")
        return mu[e[1]]
    if k == "const":
        return jterm(e[1])
    if k in ("=", "!="):
        a, b = eval_expr(e[1], mu, env), eval_expr(e[2], mu, env)
        r = rdfterm_equal(a, b)
        return mk_bool(r if k == "=" else not r)
    if k in ("<", ">", "<=", ">="):
        return mk_bool(compare(k, eval_expr(e[1], mu, env), eval_expr(e[2], mu, env)))
    if k in ("&&", "||"):
        res = []
        for sub in (e[1], e[2]):
            try:
                res.append(ebv(eval_expr(sub, mu, env)))
            except ExprError:
                res.append(None)
        if k == "&&":
            if False in res:
                return mk_bool(False)
            if None in res:
                raise ExprError("&& error")
            return mk_bool(True)
        if True in res:
            return mk_bool(True)
        if None in res:
            raise ExprError("|| error")
        return mk_bool(False)
    if k == "!":
        return mk_bool(not ebv(eval_expr(e[1], mu, env)))
    if k in ("+", "-", "*", "/"):
        return arith(k, eval_expr(e[1], mu, env), eval_expr(e[2], mu, env))
    if k == "neg":
        a = eval_expr(e[1], mu, env)
        return mk_num(-num(a), a[2])
    if k == "bound":
        return mk_bool(e[1] in mu)
    if k == "coalesce":
        for sub in e[1]:
            try:
                return eval_expr(sub, mu, env)
            except ExprError:
                continue
        raise ExprError("coalesce: all errors")
    if k == "if":
        c = ebv(eval_expr(e[1], mu, env))
        return eval_expr(e[2] if c else e[3], mu, env)
    if k in ("isIRI", "isBlank", "isLiteral", "isNumeric", "str", "lang", "datatype") and e[1][0] not in ("var", "const", "const-key"):
        raise Grey("built-in applied to a compound argument")
    if k in ("isIRI", "isBlank", "isLiteral", "isNumeric") and e[1][0] == "var" and e[1][1] not in mu:
        raise Grey("type test of an unbound variable")
    if k in ("isIRI", "isBlank", "isLiteral", "isNumeric"):
        a = eval_expr(e[1], mu, env)
        if k == "isIRI":
            return mk_bool(a[0] == "u")
        if k == "isBlank":
            return mk_bool(a[0] == "b")
        if k == "isLiteral":
            return mk_bool(a[0] == "l")
        if a[0] == "l" and a[2] in NUMERIC:
            try:
                num(a)
                return mk_bool(True)
            except Grey:
                raise
        return mk_bool(False)
    if k == "str":
        a = eval_expr(e[1], mu, env)
        if a[0] == "b":
            raise Grey("STR of a blank node")
        return mk_str(a[1])
    if k == "lang":
        a = eval_expr(e[1], mu, env)
        if a[0] != "l":
            raise ExprError("lang of non-literal")
        return mk_str(a[3] or "")
    if k == "datatype":
        a = eval_expr(e[1], mu, env)
        if a[0] != "l":
            raise ExprError("datatype of non-literal")
        if a[3]:
            return ("u", "http://www.w3.org/1999/02/22-rdf-syntax-ns#langString")
        return ("u", a[2] or STR)
    if k == "sameTerm":
        return mk_bool(eval_expr(e[1], mu, env) == eval_expr(e[2], mu, env))
    if k in ("in", "notin"):
        if not e[2]:
            raise Grey("IN with an empty list")
        a = eval_expr(e[1], mu, env)
        found, err = False, False
        for sub in e[2]:
            try:
                if rdfterm_equal(a, eval_expr(sub, mu, env)):
                    found = True
                    break
            except ExprError:
                err = True
        if found:
            return mk_bool(k == "in")
        if err:
            raise ExprError("IN with error and no match")
        return mk_bool(k != "in")
    if k in ("exists", "notexists"):
        sols = eval_pattern(substitute(e[1], mu), env)
        return mk_bool(bool(sols) == (k == "exists"))
    raise ValueError(e)


def substitute(p, mu):
    """replace variables bound in mu by their values (EXISTS semantics, 18.6 substitute)"""
    def st(t):
        if is_var(t) and t[1] in mu:
            v = mu[t[1]]
            return ["const-term", v]
        return t
    k = p[0]
    if k == "bgp":
        return ["bgp", [[st(x) for x in tp] for tp in p[1]]]
    if k in ("join", "union", "minus"):
        return [k, substitute(p[1], mu), substitute(p[2], mu)]
    if k == "opt":
        return ["opt", substitute(p[1], mu), substitute(p[2], mu), subst_expr(p[3], mu) if p[3] else None]
    if k == "filter":
        return ["filter", subst_expr(p[1], mu), substitute(p[2], mu)]
    if k == "graph":
        return ["graph", st(p[1]), substitute(p[2], mu)]
    raise Grey("EXISTS over a pattern kind whose substitution is not modelled: " + k)


def subst_expr(e, mu):
    if e[0] == "var" and e[1] in mu:
        return ["const-key", mu[e[1]]]
    if e[0] in ("const", "bound"):
        if e[0] == "bound" and e[1] in mu:
            return ["const", ["l", "true", None, BOOL]]
        return e
    if e[0] in ("exists", "notexists"):
        return [e[0], substitute(e[1], mu)]
    if e[0] in ("coalesce",):
        return [e[0], [subst_expr(x, mu) for x in e[1]]]
    if e[0] in ("in", "notin"):
        return [e[0], subst_expr(e[1], mu), [subst_expr(x, mu) for x in e[2]]]
    return [e[0]] + [subst_expr(x, mu) if isinstance(x, list) else x for x in e[1:]]


_orig_eval_expr = eval_expr


def eval_expr(e, mu, env):  # noqa: F811
    if e[0] == "const-key":
        return e[1]
    return _orig_eval_expr(e, mu, env)


# ---------------------------------------------------------------- patterns
def term_of(x):
    if x[0] == "const-term":
        return x[1]
    return jterm(x)


def compatible(a, b):
    for k, v in a.items():
        if k in b and b[k] != v:
            return False
    return True


def merge(a, b):
    m = dict(a)
    m.update(b)
    return m


def match_bgp(tps, triples):
    sols = [{}]
    for tp in tps:
        new = []
        for mu in sols:
            for t in triples:
                m = dict(mu)
                ok = True
                for x, val in zip(tp, t):
                    if is_var(x):
                        if x[1] in m:
                            if m[x[1]] != val:
                                ok = False
                                break
                        else:
                            m[x[1]] = val
                    elif term_of(x) != val:
                        ok = False
                        break
                if ok:
                    new.append(m)
        sols = new
    return sols


class Env:
    def __init__(self, dataset, union_default):
        self.ds = dataset
        self.union = union_default
        self.active = None  # None = default graph, else a graph name term

    def triples(self):
        if self.active is None:
            if self.union:
                u = set(self.ds["default"])
                for g in self.ds["named"].values():
                    u |= g
                return u
            return self.ds["default"]
        return self.ds["named"].get(self.active, set())

    def with_active(self, name):
        e = Env(self.ds, self.union)
        e.active = name
        return e


def eval_pattern(p, env):
    k = p[0]
    if k == "bgp":
        return match_bgp(p[1], env.triples())
    if k == "join":
        A, B = eval_pattern(p[1], env), eval_pattern(p[2], env)
        return [merge(a, b) for a in A for b in B if compatible(a, b)]
    if k == "opt":
        A, B = eval_pattern(p[1], env), eval_pattern(p[2], env)
        out = []
        for a in A:
            hit = False
            for b in B:
                if compatible(a, b):
                    m = merge(a, b)
                    if p[3] is None or filter_true(p[3], m, env):
                        out.append(m)
                        hit = True
            if not hit:
                out.append(a)
        return out
    if k == "union":
        return eval_pattern(p[1], env) + eval_pattern(p[2], env)
    if k == "minus":
        A, B = eval_pattern(p[1], env), eval_pattern(p[2], env)
        return [a for a in A if not any(compatible(a, b) and (set(a) & set(b)) for b in B)]
    if k == "filter":
        return [mu for mu in eval_pattern(p[2], env) if filter_true(p[1], mu, env)]
    if k == "bind":
        out = []
        for mu in eval_pattern(p[1], env):
            if p[3] in mu:
                raise Grey("BIND to a variable already bound")
            try:
                out.append(merge(mu, {p[3]: eval_expr(p[2], mu, env)}))
            except ExprError:
                out.append(mu)
        return out
    if k == "values":
        return [{v: jterm(c) for v, c in zip(p[1], row) if c is not None} for row in p[2]]
    if k == "graph":
        g = p[1]
        if is_var(g):
            out = []
            for name in env.ds["named"]:
                for mu in eval_pattern(p[2], env.with_active(name)):
                    if g[1] in mu and mu[g[1]] != name:
                        continue
                    out.append(merge(mu, {g[1]: name}))
            return out
        return eval_pattern(p[2], env.with_active(term_of(g)))
    if k == "sub":
        return eval_select(p, env)
    if k == "group":
        return eval_group(p, env)
    raise ValueError(p)


def filter_true(e, mu, env):
    try:
        return ebv(eval_expr(e, mu, env))
    except ExprError:
        return False


# ---------------------------------------------------------------- modifiers / aggregates (also used by C08)
def order_key_cmp(a, b):
    """SPARQL 15.1 ordering where defined: unbound < bnode < IRI < literal; numerics by value; strings by code point; else Grey"""
    def rank(t):
        return 0 if t is None else {"b": 1, "u": 2, "l": 3}[t[0]]
    ra, rb = rank(a), rank(b)
    if ra != rb:
        return -1 if ra < rb else 1
    if a is None or a == b:
        return 0
    if a[0] in ("u", "b"):
        if a[0] == "b":
            raise Grey("relative order of blank nodes")
        return -1 if a[1] < b[1] else 1
    fa, fb = family(a), family(b)
    if fa == fb and fa in ("numeric", "string", "boolean"):
        if compare("<", a, b):
            return -1
        if compare(">", a, b):
            return 1
        return 0
    raise Grey("order between literals of different families")


def eval_select(p, env):
    _, vars_, distinct, A, order, limit, offset = (p + [None] * 7)[:7]
    sols = eval_pattern(A, env)
    if order:
        import functools

        def cmp(m1, m2):
            for expr, desc in order:
                def val(m):
                    try:
                        return eval_expr(expr, m, env)
                    except ExprError:
                        return None
                c = order_key_cmp(val(m1), val(m2))
                if c:
                    return -c if desc else c
            return 0
        sols = sorted(sols, key=functools.cmp_to_key(cmp))
    if vars_ is not None:
        sols = [{v: m[v] for v in vars_ if v in m} for m in sols]
    if distinct:
        seen, out = set(), []
        for m in sols:
            f = frozenset(m.items())
            if f not in seen:
                seen.add(f)
                out.append(m)
        sols = out
    if offset:
        sols = sols[offset:]
    if limit is not None:
        sols = sols[:limit]
    return sols


def agg_value(agg, vals, distinct, sep):
    """vals: list of terms (None = error/unbound for that row; for count* the solutions themselves as frozensets).
    Returns the value, raises ExprError for 'unbound', or returns ("either", v_or_None) when some row had no value and the aggregate is
    not COUNT: the specification makes the aggregate an error, RDFLib (as most engines) skips the row - both are accepted."""
    if agg == "count*":
        return mk_num(len(set(vals)) if distinct else len(vals), INT)
    if agg in ("sum", "avg"):
        vals = [v if v is not None and family(v) == "numeric" else None for v in vals]
    if agg != "count" and any(v is None for v in vals):
        try:
            lenient = agg_value(agg, [v for v in vals if v is not None], distinct, sep)
        except ExprError:
            lenient = None
        return ("either", lenient)
    present = [v for v in vals if v is not None]
    if distinct:
        seen, u = set(), []
        for v in present:
            if v not in seen:
                seen.add(v)
                u.append(v)
        present = u
    if agg == "count":
        return mk_num(len(present), INT)
    if agg in ("sum", "avg"):
        if any(v is None for v in vals) and False:
            raise ExprError("error in group")
        if not present:
            return mk_num(0, INT)
        acc = mk_num(0, INT)
        for v in present:
            if family(v) != "numeric":
                raise ExprError("non-numeric in SUM/AVG")
            acc = arith("+", acc, v)
        if agg == "sum":
            return acc
        return arith("/", acc, mk_num(len(present), INT))
    if agg in ("min", "max"):
        if not present:
            raise ExprError("empty MIN/MAX")
        import functools
        best = present[0]
        for v in present[1:]:
            c = order_key_cmp(v, best)
            if (agg == "min" and c < 0) or (agg == "max" and c > 0):
                best = v
        ties = {v for v in present if order_key_cmp(v, best) == 0}
        if len(ties) > 1:
            return ("sample", frozenset(ties))  # several terms share the extreme value (1 and 1.0): any of them is a correct answer
        return best
    if agg == "sample":
        if not present:
            raise ExprError("empty SAMPLE")
        return ("sample", frozenset(present))
    if agg == "group_concat":
        parts = []
        for v in present:
            if v[0] != "l":
                raise Grey("GROUP_CONCAT of non-literal")
            parts.append(v[1])
        return ("concat", tuple(sorted(parts)), sep if sep is not None else " ")
    raise ValueError(agg)


def eval_group(p, env):
    _, keys, aggs, A, having = p
    sols = eval_pattern(A, env)
    groups = {}
    order = []
    for m in sols:
        kv = []
        for kx in keys:
            if is_var(kx):
                kv.append(m.get(kx[1]))
            else:
                try:
                    kv.append(eval_expr(kx[0], m, env))
                except ExprError:
                    kv.append(None)
        kv = tuple(kv)
        if kv not in groups:
            groups[kv] = []
            order.append(kv)
        groups[kv].append(m)
    if not keys and not groups:
        groups[()] = []
        order.append(())
    out = []
    for kv in order:
        rows = groups[kv]
        mu = {}
        for kx, v in zip(keys, kv):
            if v is not None:
                mu[kx[1] if is_var(kx) else kx[1]] = v
        for var, agg, expr, distinct, sep in aggs:
            vals = []
            for m in rows:
                if agg == "count*":
                    vals.append(frozenset(m.items()))
                    continue
                try:
                    vals.append(eval_expr(expr, m, env))
                except ExprError:
                    vals.append(None)
            try:
                mu[var] = agg_value(agg, vals, distinct, sep)
            except ExprError:
                pass
        if having is not None:
            if any(isinstance(v, tuple) and v and v[0] == "either" for v in mu.values()):
                raise Grey("HAVING over a group with an expression error")
            hmu = {}
            for k2, v in mu.items():
                if isinstance(v, tuple) and v and v[0] == "sample":
                    if len(v[1]) != 1:
                        raise Grey("HAVING over a SAMPLE with several candidates")
                    v = next(iter(v[1]))
                elif isinstance(v, tuple) and v and v[0] == "concat":
                    if len(v[1]) > 1:
                        raise Grey("HAVING over a GROUP_CONCAT whose order is open")
                    v = mk_str("".join(v[1]))
                hmu[k2] = v
            if not filter_true(having, hmu, env):
                continue
        out.append(mu)
    return out


# ---------------------------------------------------------------- scope
def in_scope(p):
    k = p[0]
    if k == "bgp":
        return {x[1] for tp in p[1] for x in tp if is_var(x)}
    if k in ("join", "union"):
        return in_scope(p[1]) | in_scope(p[2])
    if k == "opt":
        return in_scope(p[1]) | in_scope(p[2])
    if k == "minus":
        return in_scope(p[1])
    if k == "filter":
        return in_scope(p[2])
    if k == "bind":
        return in_scope(p[1]) | {p[3]}
    if k == "values":
        return set(p[1])
    if k == "graph":
        return in_scope(p[2]) | ({p[1][1]} if is_var(p[1]) else set())
    if k == "sub":
        return set(p[1]) if p[1] is not None else in_scope(p[3])
    if k == "group":
        return {(kx[1]) for kx in p[1]} | {a[0] for a in p[2]}
    raise ValueError(p)


def multiset(sols, vars_=None):
    c = Counter()
    for m in sols:
        items = m.items() if vars_ is None else ((k, v) for k, v in m.items() if k in vars_)
        c[frozenset(items)] += 1
    return c
