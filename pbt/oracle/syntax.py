"""Independent randomised writers and strict readers for RDF syntaxes (C05).

Terms are identity tuples as in pbt.codec.key: ("u", iri) | ("b", label) | ("l", lexical, datatype|None, lang|None).
Every free lexical choice of a writer is taken from a Chooser that replays a list of integers drawn by Hypothesis, so that a document is
a pure function of (graph, choices). Writers report the features they used."""
from __future__ import annotations

import re

XSD = "http://www.w3.org/2001/XMLSchema#"
RDF = "http://www.w3.org/1999/02/22-rdf-syntax-ns#"


class Chooser:
    def __init__(self, ints):
        self.ints = list(ints) or [0]
        self.i = 0
        self.features = set()

    def pick(self, n):
        if n <= 1:
            return 0
        v = self.ints[self.i % len(self.ints)] + self.i // len(self.ints)
        self.i += 1
        return v % n

    def choice(self, seq):
        return seq[self.pick(len(seq))]

    def flag(self, one_in=2):
        return self.pick(one_in) == 0

    def feat(self, name):
        self.features.add(name)


# ---------------------------------------------------------------- N-Triples / N-Quads writer
def _uchar(ch, c):
    cp = ord(ch)
    if cp > 0xFFFF or c.flag(4):
        c.feat("\\U")
        return "\\U%08X" % cp if c.flag() else "\\U%08x" % cp
    c.feat("\\u")
    return "\\u%04X" % cp if c.flag() else "\\u%04x" % cp


_ECHAR = {"\t": "\\t", "\b": "\\b", "\n": "\\n", "\r": "\\r", "\f": "\\f", '"': '\\"', "'": "\\'", "\\": "\\\\"}


def nt_string(s, c, quote='"'):
    out = []
    for ch in s:
        must = ch in (quote, "\\", "\n", "\r")
        if ch in _ECHAR and (must or c.flag(3)):
            if c.flag(4):
                out.append(_uchar(ch, c))
            else:
                c.feat("ECHAR")
                out.append(_ECHAR[ch])
        elif c.flag(8):
            out.append(_uchar(ch, c))
        else:
            out.append(ch)
    return quote + "".join(out) + quote


def nt_iri(iri, c):
    out = []
    for ch in iri:
        if c.flag(12):
            c.feat("iri-uchar")
            out.append(_uchar(ch, c))
        else:
            out.append(ch)
    return "<" + "".join(out) + ">"


def vary_case(tag, c):
    k = c.pick(4)
    if k == 0:
        return tag
    c.feat("langtag-case")
    return tag.upper() if k == 1 else (tag.lower() if k == 2 else tag.title())


def nt_term(t, c):
    if t[0] == "u":
        return nt_iri(t[1], c)
    if t[0] == "b":
        return "_:" + t[1]
    s = nt_string(t[1], c)
    if t[3]:
        return s + "@" + vary_case(t[3], c)
    if t[2]:
        return s + "^^" + nt_iri(t[2], c)
    return s


def write_nt(tuples, c):
    """tuples: triples or quads (4th element a term or None). Returns the document text."""
    lines = []
    ws = lambda must=False: c.choice([" ", " ", "\t", "  ", " \t"] if must else [" ", " ", "", "\t", "  "])  # noqa: E731
    eol = lambda: c.choice(["\n", "\n", "\n", "\r\n", "\r", "\n\n"])  # noqa: E731
    for t in tuples:
        if c.flag(8):
            c.feat("comment-line")
            lines.append(c.choice(["# a comment", "#", "   # <x> <y> <z> .", "#\"unterminated"]) + eol())
        if c.flag(10):
            c.feat("blank-line")
            lines.append(c.choice(["", " ", "\t"]) + eol())
        terms = [x for x in t if x is not None]
        line = c.choice(["", "", " ", "\t"])
        for x in terms:
            line += nt_term(x, c)
            # a blank node label or a language tag must be delimited from what follows; elsewhere white space is optional
            line += ws(must=x[0] == "b" or (x[0] == "l" and bool(x[3])))
        line += "."
        if c.flag(6):
            c.feat("trailing-comment")
            line += c.choice([" ", "", "\t"]) + "# trailing <c> \"c\""
        elif c.flag(4):
            line += c.choice([" ", "\t", "  "])
        lines.append(line + eol())
    doc = "".join(lines)
    if doc and c.flag(5):
        c.feat("no-final-eol")
        doc = doc.rstrip("\r\n")
    return doc


# ---------------------------------------------------------------- strict N-Triples / N-Quads reader (W3C EBNF transcribed)
_HEX = "[0-9A-Fa-f]"
_UCHAR = r"(?:\\u%s{4}|\\U%s{8})" % (_HEX, _HEX)
_IRIREF = r"<((?:[^\x00-\x20<>\"{}|^`\\]|%s)*)>" % _UCHAR
_PN_CHARS_BASE = ("A-Za-z\u00C0-\u00D6\u00D8-\u00F6\u00F8-\u02FF\u0370-\u037D\u037F-\u1FFF\u200C-\u200D\u2070-\u218F\u2C00-\u2FEF\u3001-\uD7FF"
                  "\uF900-\uFDCF\uFDF0-\uFFFD\U00010000-\U000EFFFF")
_PN_CHARS_U = _PN_CHARS_BASE + "_:"
_PN_CHARS = _PN_CHARS_U + "\\-0-9\u00B7\u0300-\u036F\u203F-\u2040"
_BNODE = r"_:([%s0-9](?:[%s.]*[%s])?)" % (_PN_CHARS_U, _PN_CHARS, _PN_CHARS)
_STRING = r'"((?:[^\x22\x5C\x0A\x0D]|\\[tbnrf"\'\\]|%s)*)"' % _UCHAR
_LANGTAG = r"@([a-zA-Z]+(?:-[a-zA-Z0-9]+)*)"
_WS = r"[\x20\x09]*"
_TERM_S = r"(?:%s|%s)" % (_IRIREF, _BNODE)
_LITERAL = r"%s(?:\^\^%s|%s)?" % (_STRING, _IRIREF, _LANGTAG)
_LINE = re.compile(r"^%s(?:%s)%s(?:%s)%s(?:%s|%s|%s)%s(?:(?:%s|%s)%s)?\.%s(?:#[^\x0D\x0A]*)?$" % (
    _WS, _TERM_S, _WS, _IRIREF, _WS, _IRIREF, _BNODE, _LITERAL, _WS, _IRIREF, _BNODE, _WS, _WS))
_UNESC = re.compile(r"\\u(%s{4})|\\U(%s{8})|\\([tbnrf\"'\\])" % (_HEX, _HEX))
_ECHAR_REV = {"t": "\t", "b": "\b", "n": "\n", "r": "\r", "f": "\f", '"': '"', "'": "'", "\\": "\\"}


class StrictSyntaxError(Exception):
    pass


def _unescape(s, echar=True):
    def rep(m):
        if m.group(1):
            return chr(int(m.group(1), 16))
        if m.group(2):
            cp = int(m.group(2), 16)
            if cp > 0x10FFFF:
                raise StrictSyntaxError("code point out of range")
            return chr(cp)
        if not echar:
            raise StrictSyntaxError("ECHAR in IRI")
        return _ECHAR_REV[m.group(3)]
    return _UNESC.sub(rep, s)


def read_nt_strict(text, quads=False):
    """-> set of tuples (triples, or quads with None for the default graph). Raises StrictSyntaxError on anything outside the grammar."""
    out = set()
    for raw in re.split(r"[\x0D\x0A]+", text):
        if re.match(r"^%s(?:#[^\x0D\x0A]*)?$" % _WS, raw):
            continue
        m = _LINE.match(raw)
        if not m:
            raise StrictSyntaxError("not a triple/quad line: %r" % raw[:120])
        g = m.groups()
        # groups: s_iri, s_bnode, p_iri, o_iri, o_bnode, o_string, o_dt, o_lang, g_iri, g_bnode
        s = ("u", _unescape(g[0], False)) if g[0] is not None else ("b", g[1])
        p = ("u", _unescape(g[2], False))
        if g[3] is not None:
            o = ("u", _unescape(g[3], False))
        elif g[4] is not None:
            o = ("b", g[4])
        else:
            o = ("l", _unescape(g[5]), _unescape(g[6], False) if g[6] is not None else None, g[7].lower() if g[7] is not None else None)
        if g[8] is not None or g[9] is not None:
            if not quads:
                raise StrictSyntaxError("graph label in N-Triples")
            gr = ("u", _unescape(g[8], False)) if g[8] is not None else ("b", g[9])
            out.add((s, p, o, gr))
        else:
            out.add((s, p, o, None) if quads else (s, p, o))
    return out


# ---------------------------------------------------------------- RFC 3986 reference resolution (5.2)
_URI = re.compile(r"^(?:([^:/?#]+):)?(?://([^/?#]*))?([^?#]*)(?:\?([^#]*))?(?:#(.*))?$", re.S)


def _remove_dots(path):
    out = []
    inp = path
    while inp:
        if inp.startswith("../"):
            inp = inp[3:]
        elif inp.startswith("./"):
            inp = inp[2:]
        elif inp.startswith("/./"):
            inp = inp[2:]
        elif inp == "/.":
            inp = "/"
        elif inp.startswith("/../"):
            inp = inp[3:]
            if out:
                out.pop()
        elif inp == "/..":
            inp = "/"
            if out:
                out.pop()
        elif inp in (".", ".."):
            inp = ""
        else:
            m = re.match(r"^(/?[^/]*)", inp)
            out.append(m.group(1))
            inp = inp[m.end():]
    return "".join(out)


def resolve(base, ref):
    bs, ba, bp, bq, _bf = _URI.match(base).groups()
    rs, ra, rp, rq, rf = _URI.match(ref).groups()
    if rs is not None:
        ts, ta, tp, tq = rs, ra, _remove_dots(rp), rq
    else:
        if ra is not None:
            ta, tp, tq = ra, _remove_dots(rp), rq
        else:
            if rp == "":
                tp = bp
                tq = rq if rq is not None else bq
            else:
                if rp.startswith("/"):
                    tp = _remove_dots(rp)
                else:
                    if ba is not None and bp == "":
                        merged = "/" + rp
                    else:
                        merged = bp[:bp.rfind("/") + 1] + rp
                    tp = _remove_dots(merged)
                tq = rq
            ta = ba
        ts = bs
    out = ""
    if ts is not None:
        out += ts + ":"
    if ta is not None:
        out += "//" + ta
    out += tp
    if tq is not None:
        out += "?" + tq
    if rf is not None:
        out += "#" + rf
    return out


def relative_candidates(base, target):
    """references that resolve (RFC 3986 5.2) from base exactly to target, with a label for each"""
    from urllib.parse import urljoin
    bs, ba, bp, bq, bf = _URI.match(base).groups()
    ts, ta, tp, tq, tf = _URI.match(target).groups()
    cands = []
    if ts != bs or ts is None:
        return []
    tail = ("?" + tq if tq is not None else "") + ("#" + tf if tf is not None else "")
    if ta is not None:
        cands.append(("//authority", "//" + ta + tp + tail))
    if ta == ba:
        if tp.startswith("/"):
            cands.append(("/abs-path", tp + tail))
        bdir = bp[:bp.rfind("/") + 1]
        if tp.startswith(bdir) and bdir:
            rest = tp[len(bdir):]
            if rest and ":" not in rest.split("/")[0]:
                cands.append(("name", rest + tail))
            cands.append(("./name", "./" + rest + tail))
        up = bdir.rstrip("/")
        up = up[:up.rfind("/") + 1] if up else ""
        if up and tp.startswith(up):
            cands.append(("../name", "../" + tp[len(up):] + tail))
        if tp == bp:
            if tq is not None:
                cands.append(("?query", "?" + tq + ("#" + tf if tf is not None else "")))
            if tq == bq:
                if tf is not None:
                    cands.append(("#fragment", "#" + tf))
                else:
                    cands.append(("same-document", ""))
    good = []
    for label, ref in cands:
        try:
            if resolve(base, ref) == target and urljoin(base, ref) == target:
                good.append((label, ref))
        except Exception:  # noqa: BLE001
            pass
    return good


# ---------------------------------------------------------------- Turtle / TriG: document ASTs, their meaning, and a randomised writer
# node      ::= ("t", term) | ("anon", pol) | ("coll", [node, ...])
# pol       ::= [(predicate_term, [node, ...]), ...]
# statement ::= (subject_node, pol)          (pol may be empty only if the subject is an "anon" with a non-empty pol)
# document  ::= [(graph_term | None, [statement, ...]), ...]     (Turtle: one block with graph None)
NIL = ("u", RDF + "nil")
FIRST, REST, TYPE = ("u", RDF + "first"), ("u", RDF + "rest"), ("u", RDF + "type")


def eval_doc(blocks):
    """-> set of quads (graph None = default graph); anonymous nodes get labels anonN / cellN in document order"""
    out = set()
    counter = [0]

    def fresh(prefix):
        counter[0] += 1
        return ("b", "%s%d" % (prefix, counter[0]))

    def node(n, g):
        if n[0] == "t":
            return n[1]
        if n[0] == "raw":  # a token written verbatim, with the term it denotes
            return n[2]
        if n[0] == "anon":
            b = fresh("anon")
            pol(b, n[1], g)
            return b
        if n[0] == "coll":
            if not n[1]:
                return NIL
            cells = [fresh("cell") for _ in n[1]]
            for i, m in enumerate(n[1]):
                out.add((cells[i], FIRST, node(m, g), g))
                out.add((cells[i], REST, cells[i + 1] if i + 1 < len(cells) else NIL, g))
            return cells[0]
        raise ValueError(n)

    def pol(s, pl, g):
        for p, objs in pl:
            for o in objs:
                out.add((s, p, node(o, g), g))

    for g, stmts in blocks:
        for s, pl in stmts:
            pol(node(s, g), pl, g)
    return out


_PN_LOCAL_ESC = "_~.-!$&'()*+,;=/?#@%"
_RE_PN_CHARS_BASE = re.compile("[%s]" % _PN_CHARS_BASE)
_RE_PN_CHARS = re.compile("[%s]" % _PN_CHARS.replace(":", ""))  # Turtle: ':' is not in PN_CHARS_U


def pn_local(local, c):
    """a PN_LOCAL spelling of the string, or None when there is none"""
    out = []
    n = len(local)
    i = 0
    while i < n:
        ch = local[i]
        first, last = i == 0, i == n - 1
        if ch == "%":
            if i + 2 < n + 0 and re.match(r"%[0-9A-Fa-f]{2}", local[i:i + 3]):
                out.append(local[i:i + 3])  # PERCENT stands for itself
                c.feat("pn-local-percent")
                i += 3
                continue
            out.append("\\%")
            c.feat("pn-local-esc")
        elif ch == ":" or ch.isdigit() and ord(ch) < 128:
            out.append(ch)
        elif ch == "_":
            out.append("\\_" if c.flag(4) else "_")
        elif ch == ".":
            if first or last or c.flag(3):
                out.append("\\.")
                c.feat("pn-local-esc")
            else:
                out.append(".")
        elif ch == "-":
            if first or c.flag(3):
                out.append("\\-")
                c.feat("pn-local-esc")
            else:
                out.append("-")
        elif ch in _PN_LOCAL_ESC:
            out.append("\\" + ch)
            c.feat("pn-local-esc")
        elif _RE_PN_CHARS_BASE.match(ch):
            out.append(ch)
        elif _RE_PN_CHARS.match(ch) and not first:
            out.append(ch)
        else:
            return None
        i += 1
    return "".join(out)


def split_points(iri):
    pts = {m.end() for m in re.finditer(r"[#/:]", iri)}
    return sorted(p for p in pts if 0 < p <= len(iri))


_PREFIX_NAMES = ["", "ex", "a", "p1", "x-y", "x.y", "é", "Pre_fix", "rdfx"]


class TurtleWriter:
    def __init__(self, c, trig=False):
        self.c = c
        self.trig = trig
        self.prefixes = {}  # ns -> name
        self.base = None

    # --- lexical pieces
    def ws(self, must=False):
        c = self.c
        k = c.pick(10)
        if k == 0:
            c.feat("comment")
            return " # comment ; . <x> \n"
        if k == 1:
            return "\n"
        if k == 2:
            return "\t"
        if k == 3 and not must:
            return ""
        if k == 4:
            return " \r\n  "
        return " "

    def iri(self, iri, allow_a=False):
        c = self.c
        if allow_a and iri == RDF + "type" and c.flag():
            c.feat("a")
            return "a"
        opts = []
        for ns, name in self.prefixes.items():
            if iri.startswith(ns):
                loc = pn_local(iri[len(ns):], c)
                if loc is not None:
                    opts.append(name + ":" + loc)
        if self.base is not None:
            for label, ref in relative_candidates(self.base, iri):
                if not re.search(r'[\x00-\x20<>"{}|^`\\]', ref):
                    opts.append(("rel", label, ref))
        if opts and c.flag(4) is False:
            o = c.choice(opts)
            if isinstance(o, tuple):
                c.feat("relative-iri:" + o[1])
                return "<" + o[2] + ">"
            c.feat("prefixed-name")
            return o
        s = nt_iri(iri, c)
        return s

    def string(self, s):
        c = self.c
        k = c.pick(4)
        if k == 0:
            return nt_string(s, c, '"')
        if k == 1:
            c.feat("single-quoted")
            return nt_string(s, c, "'")
        q = '"' if k == 2 else "'"
        c.feat("long-string")
        out = []
        for i, ch in enumerate(s):
            if ch == "\\":
                out.append("\\\\")
            elif ch == q:
                nxt = s[i + 1] if i + 1 < len(s) else None
                if nxt == q or nxt is None or c.flag(3):
                    out.append("\\" + q)
                else:
                    out.append(q)
            elif ch in "\n\r\t":
                if c.flag(3):
                    out.append(_ECHAR[ch])
                else:
                    c.feat("raw-newline-in-long-string")
                    out.append(ch)
            elif c.flag(10):
                out.append(_uchar(ch, c))
            else:
                out.append(ch)
        return q * 3 + "".join(out) + q * 3

    def literal(self, t):
        c = self.c
        lex, dt, lang = t[1], t[2], t[3]
        if lang:
            return self.string(lex) + "@" + vary_case(lang, c)
        if dt:
            if c.flag():
                if dt == XSD + "integer" and re.fullmatch(r"[+-]?[0-9]+", lex):
                    c.feat("integer-shorthand")
                    return lex
                if dt == XSD + "decimal" and re.fullmatch(r"[+-]?[0-9]*\.[0-9]+", lex):
                    c.feat("decimal-shorthand")
                    return lex
                if dt == XSD + "double" and re.fullmatch(r"[+-]?(?:[0-9]+\.[0-9]*[eE][+-]?[0-9]+|\.[0-9]+[eE][+-]?[0-9]+|[0-9]+[eE][+-]?[0-9]+)", lex):
                    c.feat("double-shorthand")
                    return lex
                if dt == XSD + "boolean" and lex in ("true", "false"):
                    c.feat("boolean-shorthand")
                    return lex
            return self.string(lex) + "^^" + self.iri(dt)
        return self.string(lex)

    def term(self, t, pred=False):
        if t[0] == "u":
            return self.iri(t[1], allow_a=pred)
        if t[0] == "b":
            return "_:" + t[1]
        return self.literal(t)

    def needs_sep(self, text):
        """does the token need white space before a following '.', ';' or ','"""
        return bool(re.search(r"[^>\"'\])]\Z", text)) or text in ("a", "true", "false") or text.endswith("\\'")

    def node(self, n, pred=False):
        c = self.c
        if n[0] == "t":
            return self.term(n[1], pred)
        if n[0] == "raw":
            c.feat("numeric-variant")
            return n[1]
        if n[0] == "anon":
            if not n[1]:
                c.feat("[]")
                return "[" + c.choice(["", " ", "\n"]) + "]"
            c.feat("[ pol ]")
            return "[" + self.ws() + self.pol(n[1]) + self.ws() + "]"
        if n[0] == "coll":
            c.feat("collection" if n[1] else "()")
            return "(" + self.ws() + "".join(self.node(m) + self.ws(must=True) for m in n[1]) + ")"
        raise ValueError(n)

    def pol(self, pl):
        c = self.c
        parts = []
        for p, objs in pl:
            objtxt = []
            for o in objs:
                objtxt.append(self.node(o))
            if len(objs) > 1:
                c.feat(",")
            seg = self.term(p, pred=True) + self.ws(must=True) + (self.ws() + "," + self.ws()).join(
                x + (" " if self.needs_sep(x) else "") for x in objtxt)
            parts.append(seg)
        if len(parts) > 1:
            c.feat(";")
        txt = ""
        for i, seg in enumerate(parts):
            txt += seg
            if i + 1 < len(parts):
                txt += self.ws() + ";" + (self.ws() + ";" if c.flag(6) and not c.feat("repeated-;") else "") + self.ws()
        if parts and c.flag(5):
            c.feat("trailing-;")
            txt += self.ws() + ";"
        return txt

    def statement(self, s, pl, final_dot=True):
        subj = self.node(s)
        if pl:
            body = subj + self.ws(must=True) + self.pol(pl)
        else:
            body = subj
        if final_dot:
            body += (" " if self.needs_sep(body) else self.ws()) + "."
        return body

    def directives(self, iris):
        """choose base and prefixes from the IRIs of the document"""
        c = self.c
        out = []
        hier = [i for i in iris if re.match(r"^(https?|file)://", i)]
        if hier and c.flag(3):
            b = c.choice(hier)
            # a base may carry a fragment / query of its own
            self.base = b
            c.feat("base")
            out.append(("@base <%s> ." if c.flag() else c.choice(["BASE", "base", "Base"]) + " <%s>") % b)
        used_names = set()
        for i in iris:
            pts = split_points(i)
            if not pts or not c.flag(2):
                continue
            ns = i[:pts[-1]] if c.flag(4) is False else i[:c.choice(pts)]
            if ns in self.prefixes or re.search(r'[\x00-\x20<>"{}|^`\\]', ns):
                continue
            name = c.choice([n for n in _PREFIX_NAMES if n not in used_names] or [None])
            if name is None:
                break
            used_names.add(name)
            self.prefixes[ns] = name
            if c.flag():
                out.append("@prefix %s:%s<%s>%s." % (name, c.choice([" ", "", "\t"]), ns, c.choice([" ", ""])))
                c.feat("@prefix")
            else:
                out.append("%s %s: <%s>" % (c.choice(["PREFIX", "prefix", "PreFix"]), name, ns))
                c.feat("PREFIX")
        return out

    def document(self, blocks):
        c = self.c
        iris = []

        def collect(n):
            if n[0] == "raw":
                return
            if n[0] == "t":
                t = n[1]
                if t[0] == "u":
                    iris.append(t[1])
                elif t[0] == "l" and t[2]:
                    iris.append(t[2])
            elif n[0] == "anon":
                for p, objs in n[1]:
                    iris.append(p[1])
                    for o in objs:
                        collect(o)
            else:
                for m in n[1]:
                    collect(m)
        for g, stmts in blocks:
            if g is not None and g[0] == "u":
                iris.append(g[1])
            for s, pl in stmts:
                collect(s)
                for p, objs in pl:
                    iris.append(p[1])
                    for o in objs:
                        collect(o)
        iris = list(dict.fromkeys(iris))
        lines = self.directives(iris)

        def redeclare():
            """now and then a prefix is bound again, to another namespace, in the middle of the document"""
            if not self.prefixes or not c.flag(4):
                return
            name = c.choice(sorted(set(self.prefixes.values())))
            cands = [i[:p] for i in iris for p in split_points(i)[-1:] if i[:p] not in self.prefixes and not re.search(r'[\x00-\x20<>"{}|^`\\]', i[:p])]
            if not cands:
                return
            ns = c.choice(cands)
            for k in [k for k, v in self.prefixes.items() if v == name]:
                del self.prefixes[k]
            self.prefixes[ns] = name
            c.feat("prefix-redeclared")
            if c.flag():
                lines.append("@prefix %s: <%s> ." % (name, ns))
            else:
                c.feat("PREFIX")
                lines.append("%s %s: <%s>" % (c.choice(["PREFIX", "prefix"]), name, ns))
        for g, stmts in blocks:
            if not self.trig:
                for s, pl in stmts:
                    redeclare()
                    lines.append(self.statement(s, pl))
                continue
            redeclare()
            if g is None and c.flag():
                c.feat("trig-bare-triples")
                for s, pl in stmts:
                    lines.append(self.statement(s, pl))
                continue
            inner = []
            for i, (s, pl) in enumerate(stmts):
                last = i == len(stmts) - 1
                nodot = last and c.flag()
                if nodot:
                    c.feat("trig-no-final-dot")
                inner.append(self.statement(s, pl, final_dot=not nodot))
            if g is None:
                c.feat("trig-default-braces")
                head = ""
            else:
                gt_ = self.term(g)
                if c.flag():
                    c.feat("GRAPH-keyword")
                    head = c.choice(["GRAPH", "graph", "Graph"]) + " " + gt_ + self.ws()
                else:
                    head = gt_ + self.ws(must=not gt_.endswith(">"))
            lines.append(head + "{" + self.ws() + (self.ws(must=True)).join(inner) + self.ws(must=True) + "}")
        sep = lambda: c.choice(["\n", "\n", " ", "\n\n", "\r\n", "\n# c\n"])  # noqa: E731
        return "".join(x + sep() for x in lines)


# ---------------------------------------------------------------- RDF/XML: document ASTs, their meaning, and a randomised writer
# node ::= {"s": term|None, "type": iri|None, "lang": str|None, "props": [prop, ...]}
# prop ::= ("lit", p, literal) | ("attr", p, plain_literal) | ("res", p, term) | ("node", p, node) | ("ptres", p, [prop, ...])
#        | ("ptcoll", p, [node, ...]) | ("li", literal_or_term)          (p: predicate IRI string)
def eval_rdfxml(nodes):
    out = set()
    counter = [0]

    def fresh(pre):
        counter[0] += 1
        return ("b", "%s%d" % (pre, counter[0]))

    def node(n):
        s = n["s"] if n["s"] is not None else fresh("xanon")
        if n.get("type"):
            out.add((s, TYPE, ("u", n["type"])))
        props(s, n["props"])
        return s

    def props(s, pl):
        li = 0
        for pr in pl:
            k = pr[0]
            if k in ("lit", "attr"):
                out.add((s, ("u", pr[1]), pr[2]))
            elif k == "res":
                out.add((s, ("u", pr[1]), pr[2]))
            elif k == "node":
                out.add((s, ("u", pr[1]), node(pr[2])))
            elif k == "ptres":
                b = fresh("xres")
                out.add((s, ("u", pr[1]), b))
                props(b, pr[2])
            elif k == "ptcoll":
                items = [node(m) for m in pr[2]]
                if not items:
                    out.add((s, ("u", pr[1]), NIL))
                else:
                    cells = [fresh("xcell") for _ in items]
                    out.add((s, ("u", pr[1]), cells[0]))
                    for i, it in enumerate(items):
                        out.add((cells[i], FIRST, it))
                        out.add((cells[i], REST, cells[i + 1] if i + 1 < len(cells) else NIL))
            elif k == "li":
                li += 1
                out.add((s, ("u", RDF + "_%d" % li), pr[1]))
            else:
                raise ValueError(pr)
    for n in nodes:
        node(n)
    return out


_NCNAME = re.compile(r"^[A-Za-z_À-ÖØ-öø-˿Ͱ-ͽͿ-῿][A-Za-z0-9_.\-·À-ÖØ-öø-˿̀-ͽͿ-῿]*$")


def xml_split(iri):
    """namespace / NCName local part, the longest local part that is an NCName"""
    for i in range(len(iri)):
        if _NCNAME.match(iri[i:]) and i > 0 and not _NCNAME.match(iri[i - 1:]):
            return iri[:i], iri[i:]
    return None


class RDFXMLWriter:
    def __init__(self, c, encoding=None):
        self.c = c
        self.encoding = encoding  # declared in the XML declaration; the caller encodes the document accordingly
        self.ns = {RDF: "rdf"}  # namespace -> prefix, declared on the root
        self.base = None

    def esc(self, s, attr=False):
        c = self.c
        out = []
        for i, ch in enumerate(s):
            if ch == ">" and s[max(0, i - 2):i] == "]]":
                out.append("&gt;")  # "]]>" may not appear in character data
            elif ch == "&":
                out.append(c.choice(["&amp;", "&#38;", "&#x26;"]))
            elif ch == "<":
                out.append(c.choice(["&lt;", "&#60;", "&#x3C;"]))
            elif ch == ">":
                out.append(c.choice(["&gt;", ">", "&#62;"]) if not attr else "&gt;")
            elif ch == '"' and attr:
                out.append(c.choice(["&quot;", "&#34;"]))
            elif ch == "\r":
                out.append("&#13;" if c.flag() else "&#xD;")
            elif ch in "\t\n" and attr:
                out.append("&#%d;" % ord(ch))
            elif c.flag(12):
                c.feat("char-reference")
                out.append("&#x%X;" % ord(ch) if c.flag() else "&#%d;" % ord(ch))
            else:
                out.append(ch)
        return "".join(out)

    def text(self, s):
        c = self.c
        if s and "]]>" not in s and "\r" not in s and c.flag(5):
            c.feat("CDATA")
            return "<![CDATA[" + s + "]]>"
        return self.esc(s)

    def qname(self, iri, local_decls):
        """-> qname; may add an xmlns declaration to local_decls"""
        c = self.c
        sp = xml_split(iri)
        assert sp, iri
        ns, local = sp
        if ns in self.ns and not c.flag(8):
            pfx = self.ns[ns]
        else:
            c.feat("local-xmlns")
            free = [x for x in ["l1", "l2", "q", "rdf2", "_p", "l6", "l7", "l8"] if local_decls.get(x, ns) == ns]
            pfx = c.choice(free)
            local_decls[pfx] = ns
        return (pfx + ":" + local) if pfx else local

    def iri_attr(self, iri):
        c = self.c
        if self.base is not None and c.flag():
            cands = [r for r in relative_candidates(self.base, iri)]
            if cands:
                label, ref = c.choice(cands)
                c.feat("relative-iri:" + label)
                return self.esc(ref, attr=True)
        return self.esc(iri, attr=True)

    def subject_attrs(self, s):
        c = self.c
        if s is None:
            c.feat("anonymous-node")
            return ""
        if s[0] == "b":
            c.feat("rdf:nodeID")
            return ' rdf:nodeID="%s"' % s[1]
        if self.base is not None and "#" in s[1]:
            b, frag = s[1].rsplit("#", 1)
            if b == self.base.split("#")[0] and _NCNAME.match(frag) and c.flag() and frag not in self.used_ids:
                self.used_ids.add(frag)
                c.feat("rdf:ID")
                return ' rdf:ID="%s"' % frag
        c.feat("rdf:about")
        return ' rdf:about="%s"' % self.iri_attr(s[1])

    def lit_elem(self, tag, lit, scope_lang, decls_txt):
        lex, dt, lang = lit[1], lit[2], lit[3]
        attrs = ""
        if dt:
            self.c.feat("rdf:datatype")
            attrs += ' rdf:datatype="%s"' % self.esc(dt, attr=True)  # (always absolute: whether rdf:datatype takes part in base resolution is not tested here)
        elif lang:
            if scope_lang == lang and self.c.flag():
                self.c.feat("xml:lang-inherited")
            else:
                attrs += ' xml:lang="%s"' % vary_case(lang, self.c)
        elif scope_lang:
            self.c.feat('xml:lang-reset')
            attrs += ' xml:lang=""'
        return "<%s%s%s>%s</%s>" % (tag, decls_txt, attrs, self.text(lex), tag)

    def props(self, pl, lang, indent, allow_attrs, decls):
        """-> (attribute text for property attributes, list of property elements)"""
        c = self.c
        attrs = ""
        body = []
        for pr in pl:
            k = pr[0]
            pd = {}
            if k == "attr" and allow_attrs and not lang and c.flag(4) is False:
                c.feat("property-attribute")
                attrs += ' %s="%s"' % (self.qname(pr[1], decls), self.esc(pr[2][1], attr=True))
                continue
            if k == "li":
                c.feat("rdf:li")
                ptag = "rdf:li"
            else:
                ptag = self.qname(pr[1], pd)
            dtxt = "".join(' xmlns:%s="%s"' % (p, self.esc(u, attr=True)) for p, u in pd.items())
            if k in ("lit", "attr"):
                body.append(self.lit_elem(ptag, pr[2], lang, dtxt))
            elif k == "li":
                v = pr[1]
                if v[0] == "l":
                    body.append(self.lit_elem(ptag, v, lang, dtxt))
                elif v[0] == "u":
                    body.append('<%s%s rdf:resource="%s"/>' % (ptag, dtxt, self.iri_attr(v[1])))
                else:
                    body.append('<%s%s rdf:nodeID="%s"/>' % (ptag, dtxt, v[1]))
            elif k == "res":
                v = pr[2]
                if v[0] == "u":
                    c.feat("rdf:resource")
                    body.append('<%s%s rdf:resource="%s"%s' % (ptag, dtxt, self.iri_attr(v[1]), "/>" if c.flag() else "></%s>" % ptag))
                else:
                    body.append('<%s%s rdf:nodeID="%s"/>' % (ptag, dtxt, v[1]))
            elif k == "node":
                c.feat("nested-node")
                body.append("<%s%s>%s%s%s</%s>" % (ptag, dtxt, self.gap(), self.node(pr[2], lang, indent + 1), self.gap(), ptag))
            elif k == "ptres":
                c.feat("parseType=Resource")
                _, inner = self.props(pr[2], lang, indent + 1, False, {})
                body.append('<%s%s rdf:parseType="Resource">%s%s</%s>' % (ptag, dtxt, "".join(self.gap() + b for b in inner), self.gap(), ptag))
            elif k == "ptcoll":
                c.feat("parseType=Collection")
                body.append('<%s%s rdf:parseType="Collection">%s</%s>' % (ptag, dtxt, "".join(self.gap() + self.node(m, lang, indent + 1) for m in pr[2]) + self.gap(), ptag))
        return attrs, body

    def node(self, n, scope_lang, indent, root_attrs=""):
        c = self.c
        decls = {}
        s = n["s"]
        if n.get("type") and xml_split(n["type"]) and c.flag(3) is False:
            c.feat("typed-node")
            tag = self.qname(n["type"], decls)
            extra_type = None
        else:
            tag = "rdf:Description"
            extra_type = n.get("type")
        # an xml:base of its own for this element and everything inside it, written relative to the base in scope where that can be done
        outer_base = self.base
        base_attr = ""
        if self.base is not None and getattr(self, "hier", None) and not root_attrs and c.pick(6) == 0:
            nb = c.choice(self.hier)
            cands = [r for _, r in relative_candidates(self.base, nb) if r] + [nb]
            ref = c.choice(cands)
            c.feat("nested-xml:base" + (":relative" if ref != nb else ""))
            base_attr = ' xml:base="%s"' % self.esc(ref, attr=True)
            self.base = nb
        try:
            return self._node(n, scope_lang, indent, root_attrs + base_attr, tag, extra_type, decls)
        finally:
            self.base = outer_base

    def _node(self, n, scope_lang, indent, root_attrs, tag, extra_type, decls):
        c = self.c
        s = n["s"]
        attrs = self.subject_attrs(s)
        lang = scope_lang
        if n.get("lang"):
            c.feat("xml:lang-on-node")
            attrs += ' xml:lang="%s"' % n["lang"]
            lang = n["lang"].lower()
        body = []
        if extra_type:
            body.append('<rdf:type rdf:resource="%s"/>' % self.iri_attr(extra_type))
        pattrs, pbody = self.props(n["props"], lang, indent, True, decls)
        attrs += pattrs
        body += pbody
        dtxt = "".join(' xmlns:%s="%s"' % (p, self.esc(u, attr=True)) for p, u in decls.items())
        if not body and c.flag():
            return "<%s%s%s%s/>" % (tag, root_attrs, dtxt, attrs)
        return "<%s%s%s%s>%s%s</%s>" % (tag, root_attrs, dtxt, attrs, "".join(self.gap() + b for b in body), self.gap(), tag)

    def gap(self):
        c = self.c
        k = c.pick(8)
        if k == 0:
            c.feat("xml-comment")
            return "\n<!-- a <comment> & -->\n"
        if k == 1:
            c.feat("processing-instruction")
            return "<?pi data?>"
        return c.choice(["\n  ", "", " ", "\n", "\t"])

    def document(self, nodes, iris):
        c = self.c
        self.used_ids = set()
        # namespaces for predicates / types, declared on the root
        names = ["ex", "a", "ns1", "dc", "p-1", "é"]
        for i in iris:
            sp = xml_split(i)
            if sp and sp[0] not in self.ns and names and c.flag(3) is False:
                self.ns[sp[0]] = names.pop(0)
        hier = [i for i in iris if re.match(r"^https?://[^#]*$", i)]
        # (a base that makes rdf:ID usable: the part before the fragment of an IRI whose fragment is an NCName)
        hier += [i.split("#")[0] for i in iris if re.match(r"^https?://[^#]+#", i) and _NCNAME.match(i.split("#", 1)[1])]
        root_attrs = "".join(' xmlns:%s="%s"' % (p, self.esc(u, attr=True)) for u, p in self.ns.items())
        self.hier = [h for h in hier if "#" not in h]
        if hier and c.flag():
            self.base = c.choice(hier)
            c.feat("xml:base")
            root_attrs += ' xml:base="%s"' % self.esc(self.base, attr=True)
        head = ""
        if self.encoding:
            head = '<?xml version="1.0" encoding="%s"?>\n' % self.encoding
            c.feat("encoding:" + self.encoding.lower())
        elif c.flag():
            head = c.choice(['<?xml version="1.0"?>', '<?xml version="1.0" encoding="UTF-8"?>', "<?xml version='1.0' encoding='utf-8' standalone='yes'?>"]) + "\n"
        if len(nodes) == 1 and c.flag(4):
            # a single node element may be the document element
            c.feat("no-rdf:RDF-root")
            return head + self.node(nodes[0], None, 0, root_attrs=root_attrs)
        body = "".join(self.gap() + self.node(n, None, 1) for n in nodes)
        return head + "<rdf:RDF" + root_attrs + ">" + body + self.gap() + "</rdf:RDF>" + c.choice(["", "\n", "\n<!-- end -->"])


# ---------------------------------------------------------------- JSON-LD: document ASTs, their meaning, and a randomised writer
# nodeobj ::= {"id": term|None, "types": [iri, ...], "props": [(p_iri, [value, ...]), ...], "reverse": [(p_iri, [nodeobj, ...]), ...]}
# value   ::= ("lit", literal) | ("ref", term) | ("node", nodeobj) | ("list", [value, ...])
# document ::= {"default": [nodeobj, ...], "graphs": [(graph_term, [nodeobj, ...]), ...]}
def eval_jsonld(doc):
    out = set()
    counter = [0]

    def fresh(pre):
        counter[0] += 1
        return ("b", "%s%d" % (pre, counter[0]))

    def value(v, g):
        if v[0] == "lit":
            return v[1]
        if v[0] == "ref":
            return v[1]
        if v[0] == "node":
            return node(v[1], g)
        if v[0] == "list":
            if not v[1]:
                return NIL
            cells = [fresh("jcell") for _ in v[1]]
            for i, m in enumerate(v[1]):
                out.add((cells[i], FIRST, value(m, g), g))
                out.add((cells[i], REST, cells[i + 1] if i + 1 < len(cells) else NIL, g))
            return cells[0]
        raise ValueError(v)

    def node(n, g):
        s = n["id"] if n["id"] is not None else fresh("janon")
        for t in n["types"]:
            out.add((s, TYPE, ("u", t), g))
        for p, vals in n["props"]:
            for v in vals:
                out.add((s, ("u", p), value(v, g), g))
        for p, subs in n.get("reverse", []):
            for m in subs:
                out.add((node(m, g), ("u", p), s, g))
        return s

    for n in doc["default"]:
        node(n, None)
    for gterm, nodes in doc["graphs"]:
        for n in nodes:
            node(n, gterm)
    return out


class JSONLDWriter:
    def __init__(self, c):
        self.c = c
        self.prefixes = {}   # ns -> term
        self.vocab = None
        self.base = None
        self.terms = {}      # predicate iri -> (term name, coercion) ; coercion: None | "@id" | datatype iri | ("lang", tag) | "@list"
        self.default_lang = None

    # --- IRI spellings
    def compact(self, iri, vocab_ok):
        c = self.c
        opts = []
        if vocab_ok and self.vocab and iri.startswith(self.vocab):
            loc = iri[len(self.vocab):]
            if loc and ":" not in loc and not loc.startswith("@") and loc not in self.term_names() and "/" not in loc[:1]:
                opts.append(("vocab", loc))
        for ns, name in self.prefixes.items():
            if iri.startswith(ns):
                loc = iri[len(ns):]
                if not loc.startswith("//"):
                    opts.append(("prefix", name + ":" + loc))
        if opts and c.flag(4) is False:
            kind, s = c.choice(opts)
            c.feat("compact-iri" if kind == "prefix" else "vocab-relative")
            return s
        return iri

    def term_names(self):
        return {t for t, _ in self.terms.values()} | set(self.prefixes.values())

    def id_value(self, t):
        """spelling of a node reference (document-relative)"""
        c = self.c
        if t[0] == "b":
            return "_:" + t[1]
        iri = t[1]
        if self.base and c.flag():
            cands = relative_candidates(self.base, iri)
            if cands:
                label, ref = c.choice(cands)
                if ref != "" and not ref.startswith("_:") and ":" not in ref.split("/")[0].split("?")[0].split("#")[0]:
                    c.feat("relative-iri:" + label)
                    return ref
        for ns, name in self.prefixes.items():
            if iri.startswith(ns) and not iri[len(ns):].startswith("//") and c.flag(3):
                c.feat("compact-iri")
                return name + ":" + iri[len(ns):]
        return iri

    def lit(self, l, coercion):
        c = self.c
        lex, dt, lang = l[1], l[2], l[3]
        if lang:
            if coercion == ("lang", lang) or (coercion is None and self.default_lang == lang and c.flag()):
                c.feat("language-by-context")
                return lex
            return {"@value": lex, "@language": vary_case(lang, c)}
        if dt:
            if coercion == dt:
                c.feat("type-coercion")
                return lex
            if dt == XSD + "integer" and re.fullmatch(r"-?(0|[1-9][0-9]{0,14})", lex) and coercion is None and c.flag():
                c.feat("native-integer")
                return int(lex)
            if dt == XSD + "boolean" and lex in ("true", "false") and coercion is None and c.flag():
                c.feat("native-boolean")
                return lex == "true"
            if dt == XSD + "string" and False:
                return lex
            return {"@value": lex, "@type": self.compact(dt, True)}
        # plain literal
        if coercion is None and not self.default_lang and c.flag():
            return lex
        if coercion is None and self.default_lang:
            c.feat("language-reset")
            return {"@value": lex} if c.flag() else {"@value": lex, "@language": None}
        return {"@value": lex}

    def value(self, v, coercion):
        c = self.c
        if v[0] == "lit":
            return self.lit(v[1], coercion if not isinstance(coercion, str) or coercion not in ("@id", "@list") else "x")
        if v[0] == "ref":
            if coercion == "@id" and v[1][0] == "u":
                c.feat("id-coercion")
                return self.id_value(v[1])
            return {"@id": self.id_value(v[1])}
        if v[0] == "node":
            c.feat("nested-node")
            return self.node(v[1])
        if v[0] == "list":
            c.feat("@list")
            return {"@list": [self.value(m, coercion) for m in v[1]]}  # (the term's coercion applies to list members too)
        raise ValueError(v)

    def key(self, p):
        if p in self.terms and self.c.flag(5) is False:
            self.c.feat("term")
            return self.terms[p][0], self.terms[p][1]
        return self.compact(p, True), None

    def node(self, n):
        c = self.c
        items = []
        if n["id"] is not None:
            items.append(("@id", self.id_value(n["id"])))
        if n["types"]:
            ts = [self.compact(t, True) for t in n["types"]]
            items.append(("@type", ts[0] if len(ts) == 1 and c.flag() else ts))
        merged = {}
        for p, vals in n["props"]:
            k, co = self.key(p)
            if k in merged and merged[k][0] != co:
                k, co = p, None  # two spellings of one predicate with different coercions cannot share a key
            lst = merged.setdefault(k, (co, []))[1]
            if co == "@list":
                # a list-container term: the array is the list; only usable for exactly one list value
                if len(vals) == 1 and vals[0][0] == "list" and not lst:
                    c.feat("container-list")
                    lst.append(("__listcontainer__", [self.value(m, None) for m in vals[0][1]]))
                    continue
                del merged[k]
                k, co = p, None
                lst = merged.setdefault(k, (co, []))[1]
            for v in vals:
                lst.append(self.value(v, co))
        for k, (co, lst) in merged.items():
            if lst and isinstance(lst[0], tuple) and lst[0][0] == "__listcontainer__":
                items.append((k, lst[0][1]))
            elif len(lst) == 1 and c.flag():
                items.append((k, lst[0]))
            else:
                if len(lst) > 1:
                    c.feat("multi-value-array")
                items.append((k, lst))
        if n.get("reverse"):
            c.feat("@reverse")
            items.append(("@reverse", {self.compact(p, True): [self.node(m) for m in subs] for p, subs in n["reverse"]}))
        if c.flag(3):
            c.feat("key-order")
            items = items[::-1]
        return dict(items)

    def context(self, iris, preds, langs, datatypes):
        c = self.c
        ctx = {}
        for i in iris:
            pts = [p for p in split_points(i) if p < len(i) or True]
            if not pts or not c.flag(3):
                continue
            ns = i[:pts[-1]] if c.flag(4) is False else i[:c.choice(pts)]
            name = c.choice(["ex", "a", "dc", "p1", "x-y", "é", "Ns"])
            if ns in self.prefixes or name in ctx or ns[-1] not in ":/?#[]@":
                continue
            self.prefixes[ns] = name
            ctx[name] = ns
            c.feat("prefix-term")
        if preds and c.flag(3):
            p = c.choice(preds)
            pts = split_points(p)
            if pts:
                self.vocab = p[:pts[-1]]
                ctx["@vocab"] = self.vocab
                c.feat("@vocab")
        hier = [i for i in iris if re.match(r"^https?://[^#?]*$", i)]
        if hier and c.flag(3):
            self.base = c.choice(hier)
            ctx["@base"] = self.base
            c.feat("@base")
        if langs and c.flag(4):
            self.default_lang = c.choice(langs)
            ctx["@language"] = self.default_lang
            c.feat("default-language")
        for i, p in enumerate(preds):
            if not c.flag(3):
                continue
            name = "t%d" % i
            k = c.pick(5)
            if k == 0:
                ctx[name] = p
                self.terms[p] = (name, None)
            elif k == 1:
                ctx[name] = {"@id": p, "@type": "@id"}
                self.terms[p] = (name, "@id")
            elif k == 2 and datatypes:
                dt = c.choice(datatypes)
                ctx[name] = {"@id": p, "@type": dt}
                self.terms[p] = (name, dt)
            elif k == 3 and langs:
                lg = c.choice(langs)
                ctx[name] = {"@id": p, "@language": lg}
                self.terms[p] = (name, ("lang", lg))
            elif k == 4:
                ctx[name] = {"@id": p, "@container": "@list"}
                self.terms[p] = (name, "@list")
        return ctx

    def document(self, doc, iris, preds, langs, datatypes):
        import json as _json
        c = self.c
        ctx = self.context(iris, preds, langs, datatypes) if c.flag(4) is False else {}
        top = [self.node(n) for n in doc["default"]]
        for gterm, nodes in doc["graphs"]:
            c.feat("named-graph")
            top.append({"@id": self.id_value(gterm), "@graph": [self.node(n) for n in nodes]})
        if len(top) == 1 and c.flag():
            body = top[0]
            if ctx:
                body = dict([("@context", ctx)] + list(body.items())) if c.flag() else dict(list(body.items()) + [("@context", ctx)])
        elif ctx or doc["graphs"] or c.flag():
            c.feat("top-level-@graph")
            body = {"@graph": top}
            if ctx:
                body = {"@context": ctx, "@graph": top} if c.flag() else {"@graph": top, "@context": ctx}
        else:
            body = top
        kw = c.choice([{}, {"indent": 1}, {"separators": (",", ":")}, {"ensure_ascii": False}, {"ensure_ascii": False, "indent": "\t"}])
        return _json.dumps(body, **kw)
