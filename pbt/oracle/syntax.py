"""Independent randomised writers and strict readers for RDF syntaxes (C05).

Terms are identity tuples as in pbt.codec.key: ("u", iri) | ("b", label) | ("l", lexical, datatype|None, lang|None).
Every free lexical choice of a writer is taken from a Chooser that replays a list of integers drawn by Hypothesis, so that a document is
a pure function of (graph, choices). Writers report the features they used."""
from __future__ import annotations

import re

XSD = "http://www.w3.org/2001/XMLSchema#"
RDF = "http://www.w3.org/1999/02/22-rdf-syntax-ns#"


class Chooser:
    def __init__(self, ints):
        self.ints = list(ints) or [0]
        self.i = 0
        self.features = set()

    def pick(self, n):
        if n <= 1:
            return 0
        v = self.ints[self.i % len(self.ints)] + self.i // len(self.ints)
        self.i += 1
        return v % n

    def choice(self, seq):
        return seq[self.pick(len(seq))]

    def flag(self, one_in=2):
        return self.pick(one_in) == 0

    def feat(self, name):
        self.features.add(name)


# ---------------------------------------------------------------- N-Triples / N-Quads writer
def _uchar(ch, c):
    cp = ord(ch)
    if cp > 0xFFFF or c.flag(4):
        c.feat("\\U")
        return "\\U%08X" % cp if c.flag() else "\\U%08x" % cp
    c.feat("\\u")
    return "\\u%04X" % cp if c.flag() else "\\u%04x" % cp


_ECHAR = {"\t": "\\t", "\b": "\\b", "\n": "\\n", "\r": "\\r", "\f": "\\f", '"': '\\"', "'": "\\'", "\\": "\\\\"}


def nt_string(s, c, quote='"'):
    out = []
    for ch in s:
        must = ch in (quote, "\\", "\n", "\r")
        if ch in _ECHAR and (must or c.flag(3)):
            if c.flag(4):
                out.append(_uchar(ch, c))
            else:
                c.feat("ECHAR")
                out.append(_ECHAR[ch])
        elif c.flag(8):
            out.append(_uchar(ch, c))
        else:
            out.append(ch)
    return quote + "".join(out) + quote


def nt_iri(iri, c):
    out = []
    for ch in iri:
        if c.flag(12):
            c.feat("iri-uchar")
            out.append(_uchar(ch, c))
        else:
            out.append(ch)
    return "<" + "".join(out) + ">"


def vary_case(tag, c):
    k = c.pick(4)
    if k == 0:
        return tag
    c.feat("langtag-case")
    return tag.upper() if k == 1 else (tag.lower() if k == 2 else tag.title())


def nt_term(t, c):
    if t[0] == "u":
        return nt_iri(t[1], c)
    if t[0] == "b":
        return "_:" + t[1]
    s = nt_string(t[1], c)
    if t[3]:
        return s + "@" + vary_case(t[3], c)
    if t[2]:
        return s + "^^" + nt_iri(t[2], c)
    return s


def write_nt(tuples, c):
    """tuples: triples or quads (4th element a term or None). Returns the document text."""
    lines = []
    ws = lambda must=False: c.choice([" ", " ", "\t", "  ", " \t"] if must else [" ", " ", "", "\t", "  "])  # noqa: E731
    eol = lambda: c.choice(["\n", "\n", "\n", "\r\n", "\r", "\n\n"])  # noqa: E731
    for t in tuples:
        if c.flag(8):
            c.feat("comment-line")
            lines.append(c.choice(["# a comment", "#", "   # <x> <y> <z> .", "#\"unterminated"]) + eol())
        if c.flag(10):
            c.feat("blank-line")
            lines.append(c.choice(["", " ", "\t"]) + eol())
        terms = [x for x in t if x is not None]
        line = c.choice(["", "", " ", "\t"])
        for x in terms:
            line += nt_term(x, c)
            # a blank node label or a language tag must be delimited from what follows; elsewhere white space is optional
            line += ws(must=x[0] == "b" or (x[0] == "l" and bool(x[3])))
        line += "."
        if c.flag(6):
            c.feat("trailing-comment")
            line += c.choice([" ", "", "\t"]) + "# trailing <c> \"c\""
        elif c.flag(4):
            line += c.choice([" ", "\t", "  "])
        lines.append(line + eol())
    doc = "".join(lines)
    if doc and c.flag(5):
        c.feat("no-final-eol")
        doc = doc.rstrip("\r\n")
    return doc


# ---------------------------------------------------------------- strict N-Triples / N-Quads reader (W3C EBNF transcribed)
_HEX = "[0-9A-Fa-f]"
_UCHAR = r"(?:\\u%s{4}|\\U%s{8})" % (_HEX, _HEX)
_IRIREF = r"<((?:[^\x00-\x20<>\"{}|^`\\]|%s)*)>" % _UCHAR
_PN_CHARS_BASE = ("A-Za-z\u00C0-\u00D6\u00D8-\u00F6\u00F8-\u02FF\u0370-\u037D\u037F-\u1FFF\u200C-\u200D\u2070-\u218F\u2C00-\u2FEF\u3001-\uD7FF"
                  "\uF900-\uFDCF\uFDF0-\uFFFD\U00010000-\U000EFFFF")
_PN_CHARS_U = _PN_CHARS_BASE + "_:"
_PN_CHARS = _PN_CHARS_U + "\\-0-9\u00B7\u0300-\u036F\u203F-\u2040"
_BNODE = r"_:([%s0-9](?:[%s.]*[%s])?)" % (_PN_CHARS_U, _PN_CHARS, _PN_CHARS)
_STRING = r'"((?:[^\x22\x5C\x0A\x0D]|\\[tbnrf"\'\\]|%s)*)"' % _UCHAR
_LANGTAG = r"@([a-zA-Z]+(?:-[a-zA-Z0-9]+)*)"
_WS = r"[\x20\x09]*"
_TERM_S = r"(?:%s|%s)" % (_IRIREF, _BNODE)
_LITERAL = r"%s(?:\^\^%s|%s)?" % (_STRING, _IRIREF, _LANGTAG)
_LINE = re.compile(r"^%s(?:%s)%s(?:%s)%s(?:%s|%s|%s)%s(?:(?:%s|%s)%s)?\.%s(?:#[^\x0D\x0A]*)?$" % (
    _WS, _TERM_S, _WS, _IRIREF, _WS, _IRIREF, _BNODE, _LITERAL, _WS, _IRIREF, _BNODE, _WS, _WS))
_UNESC = re.compile(r"\\u(%s{4})|\\U(%s{8})|\\([tbnrf\"'\\])" % (_HEX, _HEX))
_ECHAR_REV = {"t": "\t", "b": "\b", "n": "\n", "r": "\r", "f": "\f", '"': '"', "'": "'", "\\": "\\"}


class StrictSyntaxError(Exception):
    pass


def _unescape(s, echar=True):
    def rep(m):
        if m.group(1):
            return chr(int(m.group(1), 16))
        if m.group(2):
            cp = int(m.group(2), 16)
            if cp > 0x10FFFF:
                raise StrictSyntaxError("code point out of range")
            return chr(cp)
        if not echar:
            raise StrictSyntaxError("ECHAR in IRI")
        return _ECHAR_REV[m.group(3)]
    return _UNESC.sub(rep, s)


def read_nt_strict(text, quads=False):
    """-> set of tuples (triples, or quads with None for the default graph). Raises StrictSyntaxError on anything outside the grammar."""
    out = set()
    for raw in re.split(r"[\x0D\x0A]+", text):
        if re.match(r"^%s(?:#[^\x0D\x0A]*)?$" % _WS, raw):
            continue
        m = _LINE.match(raw)
        if not m:
            raise StrictSyntaxError("not a triple/quad line: %r" % raw[:120])
        g = m.groups()
        # groups: s_iri, s_bnode, p_iri, o_iri, o_bnode, o_string, o_dt, o_lang, g_iri, g_bnode
        s = ("u", _unescape(g[0], False)) if g[0] is not None else ("b", g[1])
        p = ("u", _unescape(g[2], False))
        if g[3] is not None:
            o = ("u", _unescape(g[3], False))
        elif g[4] is not None:
            o = ("b", g[4])
        else:
            o = ("l", _unescape(g[5]), _unescape(g[6], False) if g[6] is not None else None, g[7].lower() if g[7] is not None else None)
        if g[8] is not None or g[9] is not None:
            if not quads:
                raise StrictSyntaxError("graph label in N-Triples")
            gr = ("u", _unescape(g[8], False)) if g[8] is not None else ("b", g[9])
            out.add((s, p, o, gr))
        else:
            out.add((s, p, o, None) if quads else (s, p, o))
    return out


# ---------------------------------------------------------------- RFC 3986 reference resolution (5.2)
_URI = re.compile(r"^(?:([^:/?#]+):)?(?://([^/?#]*))?([^?#]*)(?:\?([^#]*))?(?:#(.*))?$", re.S)


def _remove_dots(path):
    out = []
    inp = path
    while inp:
        if inp.startswith("../"):
            inp = inp[3:]
        elif inp.startswith("./"):
            inp = inp[2:]
        elif inp.startswith("/./"):
            inp = inp[2:]
        elif inp == "/.":
            inp = "/"
        elif inp.startswith("/../"):
            inp = inp[3:]
            if out:
                out.pop()
        elif inp == "/..":
            inp = "/"
            if out:
                out.pop()
        elif inp in (".", ".."):
            inp = ""
        else:
            m = re.match(r"^(/?[^/]*)", inp)
            out.append(m.group(1))
            inp = inp[m.end():]
    return "".join(out)


def resolve(base, ref):
    bs, ba, bp, bq, _bf = _URI.match(base).groups()
    rs, ra, rp, rq, rf = _URI.match(ref).groups()
    if rs is not None:
        ts, ta, tp, tq = rs, ra, _remove_dots(rp), rq
    else:
        if ra is not None:
            ta, tp, tq = ra, _remove_dots(rp), rq
        else:
            if rp == "":
                tp = bp
                tq = rq if rq is not None else bq
            else:
                if rp.startswith("/"):
                    tp = _remove_dots(rp)
                else:
                    if ba is not None and bp == "":
                        merged = "/" + rp
                    else:
                        merged = bp[:bp.rfind("/") + 1] + rp
                    tp = _remove_dots(merged)
                tq = rq
            ta = ba
        ts = bs
    out = ""
    if ts is not None:
        out += ts + ":"
    if ta is not None:
        out += "//" + ta
    out += tp
    if tq is not None:
        out += "?" + tq
    if rf is not None:
        out += "#" + rf
    return out


def relative_candidates(base, target):
    """references that resolve (RFC 3986 5.2) from base exactly to target, with a label for each"""
    from urllib.parse import urljoin
    bs, ba, bp, bq, bf = _URI.match(base).groups()
    ts, ta, tp, tq, tf = _URI.match(target).groups()
    cands = []
    if ts != bs or ts is None:
        return []
    tail = ("?" + tq if tq is not None else "") + ("#" + tf if tf is not None else "")
    if ta is not None:
        cands.append(("//authority", "//" + ta + tp + tail))
    if ta == ba:
        if tp.startswith("/"):
            cands.append(("/abs-path", tp + tail))
        bdir = bp[:bp.rfind("/") + 1]
        if tp.startswith(bdir) and bdir:
            rest = tp[len(bdir):]
            if rest and ":" not in rest.split("/")[0]:
                cands.append(("name", rest + tail))
            cands.append(("./name", "./" + rest + tail))
        up = bdir.rstrip("/")
        up = up[:up.rfind("/") + 1] if up else ""
        if up and tp.startswith(up):
            cands.append(("../name", "../" + tp[len(up):] + tail))
        if tp == bp:
            if tq is not None:
                cands.append(("?query", "?" + tq + ("#" + tf if tf is not None else "")))
            if tq == bq:
                if tf is not None:
                    cands.append(("#fragment", "#" + tf))
                else:
                    cands.append(("same-document", ""))
    good = []
    for label, ref in cands:
        try:
            if resolve(base, ref) == target and urljoin(base, ref) == target:
                good.append((label, ref))
        except Exception:  # noqa: BLE001
            pass
    return good
