"""Independent graph / dataset isomorphism: equality up to a bijection of blank nodes.

Works on sets of tuples of term keys (pbt.codec.key): triples (s,p,o) or quads (s,p,o,g). A blank node is a key ("b", label).
Ground tuples are compared as sets; blank nodes are partitioned by iterated neighbourhood signatures (colour refinement), then a
backtracking search over colour-compatible bijections with forward checking decides. Exact for any size; `budget` bounds the
number of search nodes (IsoBudget = inconclusive, never an answer)."""
from __future__ import annotations

import hashlib


class IsoBudget(Exception):
    pass


def is_b(k):
    return isinstance(k, tuple) and len(k) == 2 and k[0] == "b"


def _split(tuples):
    ground, nong = set(), []
    for t in tuples:
        if any(is_b(x) for x in t):
            nong.append(t)
        else:
            ground.add(t)
    return ground, nong


def _refine(nong):
    """colour refinement; colours are canonical strings (functions of the structure only), comparable across graphs"""
    bn = sorted({x for t in nong for x in t if is_b(x)})
    color = {b: "" for b in bn}
    ncls = 1 if bn else 0
    while True:
        sig = {b: [] for b in bn}
        for t in nong:
            shape = repr(tuple(("B", color[x]) if is_b(x) else x for x in t))
            for i, x in enumerate(t):
                if is_b(x):
                    sig[x].append((i, shape))
        new = {b: hashlib.sha1(repr((color[b], sorted(sig[b]))).encode()).hexdigest()[:16] for b in bn}
        n = len(set(new.values()))
        if n == ncls and color[bn[0]] != "" if bn else True:
            return new
        color, ncls = new, n


def cells(tuples):
    """colour classes of the blank nodes of one graph (list of sizes, descending)"""
    _, nong = _split(tuples)
    col = _refine(nong)
    sizes = {}
    for b, c in col.items():
        sizes[c] = sizes.get(c, 0) + 1
    return sorted(sizes.values(), reverse=True)


def isomorphic(t1, t2, budget=200000, fixed=None):
    """t1, t2: iterables of tuples of keys. `fixed`: blank-node keys that must map to themselves (e.g. pre-existing nodes)."""
    t1, t2 = set(t1), set(t2)
    if len(t1) != len(t2):
        return False
    g1, n1 = _split(t1)
    g2, n2 = _split(t2)
    if g1 != g2 or len(n1) != len(n2):
        return False
    if not n1:
        return True
    c1, c2 = _refine(n1), _refine(n2)
    if sorted(c1.values()) != sorted(c2.values()):
        return False
    fixed = set(fixed or ())
    by_color2 = {}
    for b, c in c2.items():
        by_color2.setdefault(c, []).append(b)
    n2set = set(n2)
    # order: smallest cells first, then most connected
    deg = {}
    for t in n1:
        for x in t:
            if is_b(x):
                deg[x] = deg.get(x, 0) + 1
    order = sorted(c1, key=lambda b: (len(by_color2.get(c1[b], ())), -deg.get(b, 0), repr(b)))
    touching = {b: [t for t in n1 if b in t] for b in order}
    steps = [0]

    def consistent(b, m):
        for t in touching[b]:
            if all((not is_b(x)) or x in m for x in t):
                if tuple(m[x] if is_b(x) else x for x in t) not in n2set:
                    return False
        return True

    def search(i, m, used):
        if i == len(order):
            return True
        steps[0] += 1
        if steps[0] > budget:
            raise IsoBudget()
        b = order[i]
        cands = by_color2.get(c1[b], ())
        if b in fixed:
            cands = [b] if b in cands else []
        for c in cands:
            if c in used or (c in fixed and c != b):
                continue
            m[b] = c
            if consistent(b, m):
                used.add(c)
                if search(i + 1, m, used):
                    return True
                used.discard(c)
            del m[b]
        return False

    if len(order) > 400:
        # the search recurses once per blank node: graphs of this size are beyond what this oracle is meant for (inconclusive)
        raise IsoBudget()
    return search(0, {}, set())
