"""Set-algebra reference for SPARQL 1.1 property paths (independent of rdflib.paths).

A path denotes a set of (start, end) pairs over term keys. `ident` is the node set used for zero-length matches.
Path AST (JSON): ["p", i] | ["inv", X] | ["seq", X, Y, ...] | ["alt", X, Y, ...] | ["star", X] | ["plus", X] | ["opt", X]
                 | ["neg", [[dir, i], ...]]   (dir 0 = forward member, 1 = inverse member)"""
from __future__ import annotations


def compose(r1, r2):
    by_start = {}
    for a, b in r2:
        by_start.setdefault(a, set()).add(b)
    return {(a, c) for a, b in r1 for c in by_start.get(b, ())}


def closure(r):
    """least fixpoint: transitive closure"""
    succ = {}
    for a, b in r:
        succ.setdefault(a, set()).add(b)
    out = set()
    for a in succ:
        seen, stack = set(), list(succ[a])
        while stack:
            x = stack.pop()
            if x in seen:
                continue
            seen.add(x)
            stack.extend(succ.get(x, ()))
        out |= {(a, x) for x in seen}
    return out


def evaluate(path, triples, preds, ident):
    """triples: set of (s, p, o) keys; preds: list of predicate keys indexed by the AST; ident: set of node keys."""
    k = path[0]
    if k == "p":
        p = preds[path[1] % len(preds)]
        return {(s, o) for s, q, o in triples if q == p}
    if k == "inv":
        return {(b, a) for a, b in evaluate(path[1], triples, preds, ident)}
    if k == "seq":
        r = evaluate(path[1], triples, preds, ident)
        for x in path[2:]:
            r = compose(r, evaluate(x, triples, preds, ident))
        return r
    if k == "alt":
        r = set()
        for x in path[1:]:
            r |= evaluate(x, triples, preds, ident)
        return r
    if k == "opt":
        return evaluate(path[1], triples, preds, ident) | {(n, n) for n in ident}
    if k == "plus":
        return closure(evaluate(path[1], triples, preds, ident))
    if k == "star":
        return closure(evaluate(path[1], triples, preds, ident)) | {(n, n) for n in ident}
    if k == "neg":
        fwd = {preds[i % len(preds)] for d, i in path[1] if d == 0}
        inv = {preds[i % len(preds)] for d, i in path[1] if d == 1}
        r = set()
        if fwd or not inv:
            r |= {(s, o) for s, q, o in triples if q not in fwd}
        if inv:
            r |= {(o, s) for s, q, o in triples if q not in inv}
        return r
    raise ValueError(path)


def restrict(rel, s, o):
    return {(a, b) for a, b in rel if (s is None or a == s) and (o is None or b == o)}


def has_closure(path):
    if path[0] in ("star", "plus", "opt"):
        return True
    if path[0] in ("p", "neg"):
        return False
    return any(has_closure(x) for x in path[1:] if isinstance(x, list))


def has_neg(path):
    if path[0] == "neg":
        return True
    if path[0] == "p":
        return False
    return any(has_neg(x) for x in path[1:] if isinstance(x, list))


def depth(path):
    if path[0] in ("p", "neg"):
        return 1
    return 1 + max(depth(x) for x in path[1:])
