"""Independent XSD lexical grammars and lexical->value maps (XSD 1.1 Part 2, restricted to forms valid in 1.0 and 1.1)
for the datatypes RDFLib recognises, plus Hypothesis strategies producing valid lexical forms with boundary classes.

value(dt, lex) returns a Python value comparable with what RDFLib documents for that datatype:
int / Decimal / float / bool / str / bytes / date / time / datetime / timedelta or ('ymd', months, seconds) for durations with
a year-month part. OutOfPythonRange is raised when the XSD value has no Python representation (year 0/negative/>9999, 24:00:00)."""
from __future__ import annotations

import base64
import re
from datetime import date, datetime, time, timedelta, timezone
from decimal import Decimal

from hypothesis import strategies as st

XSD = "http://www.w3.org/2001/XMLSchema#"


class OutOfPythonRange(Exception):
    pass


INT_RANGES = {
    "integer": (None, None), "nonPositiveInteger": (None, 0), "negativeInteger": (None, -1), "nonNegativeInteger": (0, None),
    "positiveInteger": (1, None), "long": (-2 ** 63, 2 ** 63 - 1), "int": (-2 ** 31, 2 ** 31 - 1), "short": (-2 ** 15, 2 ** 15 - 1),
    "byte": (-128, 127), "unsignedLong": (0, 2 ** 64 - 1), "unsignedInt": (0, 2 ** 32 - 1), "unsignedShort": (0, 2 ** 16 - 1),
    "unsignedByte": (0, 255),
}
RE = {
    "integer": re.compile(r"[+-]?[0-9]+\Z"),
    "decimal": re.compile(r"[+-]?([0-9]+(\.[0-9]*)?|\.[0-9]+)\Z"),
    "double": re.compile(r"([+-]?([0-9]+(\.[0-9]*)?|\.[0-9]+)([Ee][+-]?[0-9]+)?|-?INF|NaN)\Z"),
    "boolean": re.compile(r"(true|false|1|0)\Z"),
    "dateTime": re.compile(r"(-?)([0-9]{4,})-([0-9]{2})-([0-9]{2})T([0-9]{2}):([0-9]{2}):([0-9]{2})(\.[0-9]+)?(Z|[+-][0-9]{2}:[0-9]{2})?\Z"),
    "date": re.compile(r"(-?)([0-9]{4,})-([0-9]{2})-([0-9]{2})(Z|[+-][0-9]{2}:[0-9]{2})?\Z"),
    "time": re.compile(r"([0-9]{2}):([0-9]{2}):([0-9]{2})(\.[0-9]+)?(Z|[+-][0-9]{2}:[0-9]{2})?\Z"),
    "duration": re.compile(r"(-?)P(?=.)(([0-9]+)Y)?(([0-9]+)M)?(([0-9]+)D)?(T(?=.)(([0-9]+)H)?(([0-9]+)M)?(([0-9]+)(\.[0-9]+)?S)?)?\Z"),
    "hexBinary": re.compile(r"([0-9a-fA-F]{2})*\Z"),
    "base64Binary": re.compile(r"[A-Za-z0-9+/= ]*\Z"),
}
for _n in INT_RANGES:
    RE[_n] = RE["integer"]
RE["float"] = RE["double"]
RE["dayTimeDuration"] = re.compile(r"(-?)P(?=.)(([0-9]+)D)?(T(?=.)(([0-9]+)H)?(([0-9]+)M)?(([0-9]+)(\.[0-9]+)?S)?)?\Z")
RE["yearMonthDuration"] = re.compile(r"(-?)P(?=.)(([0-9]+)Y)?(([0-9]+)M)?\Z")
WS = " \t\n\r"


def collapse(s):
    return " ".join(s.replace("\t", " ").replace("\n", " ").replace("\r", " ").split(" ")).strip() if False else " ".join(s.split())


def _tz(s):
    if not s:
        return None
    if s == "Z":
        return timezone.utc
    sign = -1 if s[0] == "-" else 1
    return timezone(sign * timedelta(hours=int(s[1:3]), minutes=int(s[4:6])))


def valid(dt, lex):
    """is `lex` (after whitespace collapse where the datatype's whiteSpace facet is collapse) in the lexical space of xsd:dt"""
    if dt in ("string", "normalizedString", "token", "anyURI", "language"):
        return True
    s = collapse(lex)
    r = RE.get(dt)
    if r is None or not r.match(s):
        return False
    if dt in INT_RANGES:
        lo, hi = INT_RANGES[dt]
        v = int(s)
        return (lo is None or v >= lo) and (hi is None or v <= hi)
    try:
        value(dt, lex)
    except OutOfPythonRange:
        return True
    except (ValueError, ArithmeticError):
        return False
    return True


def value(dt, lex):
    if dt == "string":
        return lex
    if dt == "normalizedString":
        return lex.replace("\t", " ").replace("\n", " ").replace("\r", " ")
    if dt == "token":
        return collapse(lex)
    if dt in ("anyURI", "language"):
        return collapse(lex) if dt == "language" else lex
    s = collapse(lex)
    if dt in INT_RANGES:
        return int(s)
    if dt == "decimal":
        return Decimal(s)
    if dt in ("double", "float"):
        if s == "INF":
            return float("inf")
        if s == "-INF":
            return float("-inf")
        if s == "NaN":
            return float("nan")
        return float(Decimal(s))
    if dt == "boolean":
        return s in ("true", "1")
    if dt == "hexBinary":
        return bytes.fromhex(s)
    if dt == "base64Binary":
        return base64.b64decode(s.replace(" ", ""), validate=True)
    if dt == "dateTime":
        m = RE["dateTime"].match(s)
        neg, y, mo, d, h, mi, sec, frac, tz = m.groups()
        if neg or not (1 <= int(y) <= 9999):
            if int(y) == 0:
                raise ValueError("year 0000")
            raise OutOfPythonRange(lex)
        us = int(((frac or ".0")[1:] + "000000")[:6])
        if len((frac or ".")[1:]) > 6 and set((frac or ".")[7:]) - {"0"}:
            raise OutOfPythonRange(lex)
        if int(h) == 24:
            if int(mi) or int(sec) or us:
                raise ValueError("24:xx")
            date(int(y), int(mo), int(d))
            raise OutOfPythonRange(lex)
        return datetime(int(y), int(mo), int(d), int(h), int(mi), int(sec), us, tzinfo=_tz(tz))
    if dt == "date":
        m = RE["date"].match(s)
        neg, y, mo, d, tz = m.groups()
        if neg or not (1 <= int(y) <= 9999):
            if int(y) == 0:
                raise ValueError("year 0000")
            raise OutOfPythonRange(lex)
        return (date(int(y), int(mo), int(d)), _tz(tz))
    if dt == "time":
        m = RE["time"].match(s)
        h, mi, sec, frac, tz = m.groups()
        us = int(((frac or ".0")[1:] + "000000")[:6])
        if int(h) == 24:
            if int(mi) or int(sec) or us:
                raise ValueError("24:xx")
            raise OutOfPythonRange(lex)
        return time(int(h), int(mi), int(sec), us, tzinfo=_tz(tz))
    if dt in ("duration", "dayTimeDuration", "yearMonthDuration"):
        m = RE["duration"].match(s)
        neg = -1 if m.group(1) else 1
        y, mo, d = int(m.group(3) or 0), int(m.group(5) or 0), int(m.group(7) or 0)
        h, mi = int(m.group(10) or 0), int(m.group(12) or 0)
        sec = Decimal((m.group(14) or "0") + (m.group(15) or ""))
        months = neg * (12 * y + mo)
        seconds = neg * (Decimal(d) * 86400 + h * 3600 + mi * 60 + sec)
        return ("duration", months, seconds)
    raise KeyError(dt)


# ---------------------------------------------------------------- strategies for valid lexical forms (with class tags)
def _digits(lo=1, hi=6):
    return st.text("0123456789", min_size=lo, max_size=hi)


@st.composite
def int_lex(draw, dt):
    lo, hi = INT_RANGES[dt]
    cls = draw(st.sampled_from(["plain", "plain", "boundary", "leading-zeros", "plus", "big", "minus-zero"]))
    if cls == "boundary":
        cands = [x for x in (lo, hi, (lo + 1) if lo is not None else None, (hi - 1) if hi is not None else None, 0, -1, 1) if x is not None]
        v = draw(st.sampled_from(cands))
    elif cls == "big":
        v = draw(st.integers(-10 ** 30, 10 ** 30))
    else:
        v = draw(st.integers(-1000, 1000))
    if (lo is not None and v < lo) or (hi is not None and v > hi):
        v = lo if lo is not None else hi
        cls = "boundary"
    s = str(v)
    if cls == "leading-zeros":
        s = ("-" if v < 0 else "") + "00" + str(abs(v))
    if cls == "plus" and v >= 0:
        s = "+" + s
    if cls == "minus-zero" and (lo is None or lo <= 0) and (hi is None or hi >= 0):
        s = "-0"
    return s, cls


@st.composite
def decimal_lex(draw):
    cls = draw(st.sampled_from(["plain", "no-int-part", "no-frac-part", "plus", "leading-zeros", "trailing-zeros", "long", "integer-like", "minus-zero"]))
    sign = draw(st.sampled_from(["", "-", "+" if cls == "plus" else ""]))
    if cls == "no-int-part":
        s = "." + draw(_digits(1, 5))
    elif cls == "no-frac-part":
        s = draw(_digits(1, 5)) + "."
    elif cls == "integer-like":
        s = draw(_digits(1, 5))
    elif cls == "long":
        s = draw(_digits(15, 30)) + "." + draw(_digits(15, 30))
    elif cls == "minus-zero":
        return "-0.0", cls
    else:
        s = draw(_digits(1, 4)) + "." + draw(_digits(1, 4))
        if cls == "leading-zeros":
            s = "00" + s
        if cls == "trailing-zeros":
            s = s + "00"
    return sign + s, cls


@st.composite
def double_lex(draw):
    cls = draw(st.sampled_from(["plain", "exp", "exp", "nonfinite", "no-int-part", "no-frac-part", "integer-like", "plus", "tiny", "huge", "minus-zero", "precise"]))
    if cls == "nonfinite":
        return draw(st.sampled_from(["INF", "-INF", "NaN"])), cls
    if cls == "minus-zero":
        return draw(st.sampled_from(["-0", "-0.0", "-0E0"])), cls
    if cls == "precise":
        return draw(st.sampled_from(["10000001.0", "1.2345678901234567E18", "0.1", "123456789.123456789", "9007199254740993", "1.7976931348623157E308", "4.9E-324"])), cls
    sign = draw(st.sampled_from(["", "-", "+" if cls == "plus" else ""]))
    if cls == "no-int-part":
        m = "." + draw(_digits(1, 4))
    elif cls == "no-frac-part":
        m = draw(_digits(1, 4)) + "."
    elif cls == "integer-like":
        m = draw(_digits(1, 6))
    else:
        m = draw(_digits(1, 3)) + "." + draw(_digits(1, 6))
    e = ""
    if cls == "exp":
        e = draw(st.sampled_from(["e", "E"])) + draw(st.sampled_from(["", "+", "-"])) + draw(_digits(1, 2))
    if cls == "tiny":
        e = "E-320"
    if cls == "huge":
        e = "E400"
    return sign + m + e, cls


def _tzs():
    return st.sampled_from(["", "", "Z", "+00:00", "-00:00", "+05:30", "-08:00", "+14:00", "-14:00", "+01:00"])


@st.composite
def date_parts(draw):
    cls = draw(st.sampled_from(["plain", "plain", "leap", "year-lt-1000", "year-gt-9999", "negative-year", "end-of-month", "min", "max"]))
    if cls == "leap":
        return "2024", "02", "29", cls
    if cls == "min":
        return "0001", "01", "01", cls
    if cls == "max":
        return "9999", "12", "31", cls
    y = draw(st.integers(1000, 9999))
    if cls == "year-lt-1000":
        y = draw(st.integers(1, 999))
    if cls == "year-gt-9999":
        y = draw(st.integers(10000, 123456))
    mo = draw(st.integers(1, 12))
    dmax = [31, 28, 31, 30, 31, 30, 31, 31, 30, 31, 30, 31][mo - 1]
    d = dmax if cls == "end-of-month" else draw(st.integers(1, dmax))
    ys = "%04d" % y
    if cls == "negative-year":
        ys = "-" + ys
    return ys, "%02d" % mo, "%02d" % d, cls


@st.composite
def time_parts(draw):
    cls = draw(st.sampled_from(["plain", "plain", "fraction", "fraction-1-digit", "fraction-over-6-digits", "midnight-24", "max", "zero"]))
    if cls == "midnight-24":
        return "24:00:00", cls
    if cls == "max":
        return "23:59:59.999999", cls
    if cls == "zero":
        return "00:00:00", cls
    s = "%02d:%02d:%02d" % (draw(st.integers(0, 23)), draw(st.integers(0, 59)), draw(st.integers(0, 59)))
    if cls == "fraction":
        s += "." + draw(_digits(1, 6))
    if cls == "fraction-1-digit":
        s += "." + draw(st.sampled_from(["5", "0", "9"]))
    if cls == "fraction-over-6-digits":
        # any number of fraction digits is valid; those written here denote a whole number of microseconds
        s += "." + draw(_digits(6, 6)) + "0" * draw(st.integers(1, 4))
    return s, cls


@st.composite
def datetime_lex(draw):
    y, m, d, c1 = draw(date_parts())
    t, c2 = draw(time_parts())
    tz = draw(_tzs())
    return f"{y}-{m}-{d}T{t}{tz}", c1 + "/" + c2 + ("/tz" if tz else "")


@st.composite
def date_lex(draw):
    y, m, d, c1 = draw(date_parts())
    tz = draw(_tzs())
    return f"{y}-{m}-{d}{tz}", c1 + ("/tz" if tz else "")


@st.composite
def time_lex(draw):
    t, c = draw(time_parts())
    tz = draw(_tzs())
    return t + tz, c + ("/tz" if tz else "")


@st.composite
def duration_lex(draw, kind="duration"):
    cls = draw(st.sampled_from(["plain", "negative", "zero", "overflowing-fields", "fraction", "single-field"]))
    sign = "-" if cls == "negative" else ""
    big = cls == "overflowing-fields"
    n = st.integers(0, 99 if big else 11)
    parts_ym, parts_dt = "", ""
    if kind in ("duration", "yearMonthDuration"):
        if draw(st.booleans()):
            parts_ym += f"{draw(n)}Y"
        if draw(st.booleans()):
            parts_ym += f"{draw(st.integers(0, 30 if big else 11))}M"
    if kind in ("duration", "dayTimeDuration"):
        if draw(st.booleans()):
            parts_dt += f"{draw(st.integers(0, 400))}D"
        t = ""
        if draw(st.booleans()):
            t += f"{draw(st.integers(0, 99 if big else 23))}H"
        if draw(st.booleans()):
            t += f"{draw(st.integers(0, 99 if big else 59))}M"
        if draw(st.booleans()):
            sec = str(draw(st.integers(0, 99 if big else 59)))
            if cls == "fraction":
                sec += "." + draw(_digits(1, 6))
            t += sec + "S"
        if t:
            parts_dt += "T" + t
    if cls == "zero" or not (parts_ym + parts_dt):
        return {"duration": "P0D", "dayTimeDuration": draw(st.sampled_from(["PT0S", "P0D"])), "yearMonthDuration": draw(st.sampled_from(["P0Y", "P0M"]))}[kind], "zero"
    return sign + "P" + parts_ym + parts_dt, cls


@st.composite
def hex_lex(draw):
    b = draw(st.binary(max_size=6))
    case = draw(st.sampled_from(["upper", "lower", "mixed"]))
    s = b.hex()
    if case == "upper":
        s = s.upper()
    if case == "mixed":
        s = "".join(c.upper() if i % 3 == 0 else c for i, c in enumerate(s))
    return s, case if s else "empty"


@st.composite
def b64_lex(draw):
    b = draw(st.binary(max_size=7))
    s = base64.b64encode(b).decode()
    cls = "plain"
    if s and draw(st.integers(0, 3)) == 0:
        k = draw(st.integers(1, len(s) - 1)) if len(s) > 1 else 1
        s = s[:k] + " " + s[k:]
        cls = "inner-space"
    return s, cls if s else "empty"


def pad(strategy):
    """identity: whitespace-padded forms are NOT generated. RDF 1.1 does not apply the XSD whiteSpace facet, so ' 1' is not in the
    lexical space of xsd:boolean for an RDF literal (an earlier version of this harness padded forms; that over-reached the property)."""
    return strategy


def lexical_forms():
    """strategy of (datatype local name, lexical, class)"""
    opts = []
    for dt in INT_RANGES:
        opts.append(pad(int_lex(dt)).map(lambda p, dt=dt: (dt, p[0], p[1])))
    opts += [pad(decimal_lex()).map(lambda p: ("decimal", p[0], p[1]))] * 3
    opts += [pad(double_lex()).map(lambda p: ("double", p[0], p[1]))] * 3
    opts += [pad(double_lex()).map(lambda p: ("float", p[0], p[1]))]
    opts += [pad(st.sampled_from([("true", "word"), ("false", "word"), ("1", "digit"), ("0", "digit")])).map(lambda p: ("boolean", p[0], p[1]))]
    opts += [pad(datetime_lex()).map(lambda p: ("dateTime", p[0], p[1]))] * 3
    opts += [pad(date_lex()).map(lambda p: ("date", p[0], p[1]))] * 2
    opts += [pad(time_lex()).map(lambda p: ("time", p[0], p[1]))] * 2
    for k in ("duration", "dayTimeDuration", "yearMonthDuration"):
        opts.append(pad(duration_lex(k)).map(lambda p, k=k: (k, p[0], p[1])))
    opts += [pad(hex_lex()).map(lambda p: ("hexBinary", p[0], p[1])), pad(b64_lex()).map(lambda p: ("base64Binary", p[0], p[1]))]
    strs = st.lists(st.sampled_from(list("ab \t\n\r\"'\\é") + ["\U0001F600", "  "]), max_size=6).map("".join)
    for k in ("string", "normalizedString", "token", "anyURI", "language"):
        if k in ("anyURI",):
            opts.append(st.sampled_from(["http://ex.org/", "urn:x", "", "a b", "../x"]).map(lambda s, k=k: (k, s, "plain")))
        elif k == "language":
            opts.append(st.sampled_from(["en", "en-US", "x-y"]).map(lambda s, k=k: (k, s, "plain")))
        else:
            opts.append(strs.map(lambda s, k=k: (k, s, "whitespace" if set(s) & set(WS) else "plain")))
    return st.one_of(*opts)
