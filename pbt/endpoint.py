"""Loopback SPARQL 1.1 Protocol endpoint for C20: http.server on 127.0.0.1:<ephemeral>, answering with RDFLib's own engine over a Dataset.

query:  GET ?query=, POST application/sparql-query (body), POST application/x-www-form-urlencoded (query=)
        default-graph-uri selects the graph the query's default graph denotes (the protocol's dataset description)
update: POST application/sparql-update (body)
Results are SPARQL XML or JSON according to the Accept header. Every request is logged in arrival order. One server per process."""
from __future__ import annotations

import os
import re
import threading
from http.server import BaseHTTPRequestHandler, HTTPServer
from urllib.parse import parse_qs, urlparse

import rdflib.plugins.sparql as sparql_mod
from rdflib import Dataset, URIRef

_STATE = {"ds": None, "log": [], "server": None, "base": None, "errors": []}
PRIVATE = "urn:x-rdflib:default"
_CREATE = re.compile(r"^\s*CREATE\s+(SILENT\s+)?GRAPH\s+<[^<>]*>\s*$", re.I)


def dataset() -> Dataset:
    return _STATE["ds"]


def reset():
    _STATE["ds"] = Dataset(default_union=False)
    _STATE["log"] = []
    _STATE["errors"] = []
    return _STATE["ds"]


def log():
    return _STATE["log"]


def errors():
    return _STATE["errors"]


class Handler(BaseHTTPRequestHandler):
    protocol_version = "HTTP/1.0"

    def log_message(self, *args):
        pass

    def _reply(self, code, body=b"", ctype="text/plain"):
        self.send_response(code)
        self.send_header("Content-Type", ctype)
        self.send_header("Content-Length", str(len(body)))
        self.end_headers()
        self.wfile.write(body)

    def _query(self, query, params):
        _STATE["log"].append(("query", query, {k: v for k, v in params.items() if k != "query"}))
        if PRIVATE in query or any(PRIVATE in v for vs in params.values() for v in vs if isinstance(v, str)):
            # RDFLib's in-process name for "the default graph" means nothing to an endpoint (here it would even coincide with the backing
            # Dataset's default graph and hide the slip)
            _STATE["errors"].append(("private-default-graph-name-sent", query, repr(params.get("default-graph-uri"))))
        ds = _STATE["ds"]
        target = ds
        dg = params.get("default-graph-uri")
        if dg:
            target = ds.get_context(URIRef(dg[0]))
        old = sparql_mod.SPARQL_DEFAULT_GRAPH_UNION
        sparql_mod.SPARQL_DEFAULT_GRAPH_UNION = False
        try:
            res = target.query(query)
            if "json" in (self.headers.get("Accept") or ""):
                body, ctype = res.serialize(format="json"), "application/sparql-results+json"
            else:
                body, ctype = res.serialize(format="xml"), "application/sparql-results+xml"
        except Exception as e:  # noqa: BLE001 - a malformed request is the client's fault: HTTP 400, and remembered for the harness
            _STATE["errors"].append(("query", query, repr(e)))
            self._reply(400, repr(e).encode("utf-8"))
            return
        finally:
            sparql_mod.SPARQL_DEFAULT_GRAPH_UNION = old
        self._reply(200, body, ctype)

    def _update(self, text, params):
        _STATE["log"].append(("update", text, dict(params)))
        if PRIVATE in text:
            _STATE["errors"].append(("private-default-graph-name-sent", text, ""))
        old = (sparql_mod.SPARQL_DEFAULT_GRAPH_UNION, sparql_mod.SPARQL_LOAD_GRAPHS)
        sparql_mod.SPARQL_DEFAULT_GRAPH_UNION, sparql_mod.SPARQL_LOAD_GRAPHS = False, False
        try:
            if not _CREATE.match(text):  # CREATE GRAPH: a store that does not record empty graphs has nothing to do
                _STATE["ds"].update(text)
        except Exception as e:  # noqa: BLE001
            _STATE["errors"].append(("update", text, repr(e)))
            self._reply(400, repr(e).encode("utf-8"))
            return
        finally:
            sparql_mod.SPARQL_DEFAULT_GRAPH_UNION, sparql_mod.SPARQL_LOAD_GRAPHS = old
        self._reply(200, b"OK")

    def do_GET(self):  # noqa: N802
        url = urlparse(self.path)
        params = parse_qs(url.query, keep_blank_values=True)
        if "query" not in params:
            self._reply(400, b"no query")
            return
        self._query(params["query"][0], params)

    def do_POST(self):  # noqa: N802
        url = urlparse(self.path)
        params = parse_qs(url.query, keep_blank_values=True)
        body = self.rfile.read(int(self.headers.get("Content-Length") or 0))
        ctype = (self.headers.get("Content-Type") or "").split(";")[0].strip().lower()
        if url.path.endswith("/update"):
            if ctype == "application/x-www-form-urlencoded":
                form = parse_qs(body.decode("utf-8"), keep_blank_values=True)
                self._update(form.get("update", [""])[0], form)
            else:
                self._update(body.decode("utf-8"), params)
            return
        if ctype == "application/sparql-query":
            self._query(body.decode("utf-8"), params)
        else:
            form = parse_qs(body.decode("utf-8"), keep_blank_values=True)
            if "query" not in form:
                self._reply(400, b"no query")
                return
            form.update({k: v for k, v in params.items() if k not in form})
            self._query(form["query"][0], form)


def ensure_server():
    """start the endpoint of this process (once); returns the base URL"""
    if _STATE["server"] is None or _STATE.get("pid") != os.getpid():
        # (a forked worker inherits the parent's server object but not its thread: start its own)
        _STATE["pid"] = os.getpid()
        srv = HTTPServer(("127.0.0.1", 0), Handler)
        t = threading.Thread(target=srv.serve_forever, kwargs={"poll_interval": 0.05}, daemon=True)
        t.start()
        _STATE["server"] = srv
        _STATE["base"] = "http://127.0.0.1:%d" % srv.server_port
        reset()
    return _STATE["base"]
