"""Shared types for property modules: outcome of one case, SUT-call wrapper, known-finding switches."""
from __future__ import annotations

import hashlib
import json
import os
import sys
import traceback

REPO = os.path.realpath(os.environ.get("VERIF_REPO", "/repo"))
VERIF = os.path.realpath(os.path.join(os.path.dirname(os.path.abspath(__file__)), ".."))


class HarnessStepLimit(BaseException):
    """Raised by CountingGraph when code under test keeps asking the graph: means 'did not terminate'."""


class Out:
    """Outcome of running one generated case against the oracle."""

    __slots__ = ("failures", "nontrivial", "classes", "excluded", "sub_evals")

    def __init__(self):
        self.failures = []  # list of (bucket:str, detail:str)
        self.nontrivial = False
        self.classes = []  # class labels for the histogram in evidence
        self.excluded = []  # ids of known findings whose class this case fell into
        self.sub_evals = 1  # number of oracle comparisons this case stands for (>=1)

    def fail(self, bucket, detail=""):
        b = bucket if isinstance(bucket, str) else "|".join(str(x) for x in bucket)
        self.failures.append((b, str(detail)[:2000]))

    def cls(self, *labels):
        self.classes.extend(labels)


class SutError:
    """An exception raised inside code under test (value carried to the oracle)."""

    __slots__ = ("exc", "site")

    def __init__(self, exc):
        self.exc = exc
        self.site = exc_site(exc)

    @property
    def kind(self):
        return type(self.exc).__name__

    def __repr__(self):
        return f"SutError({self.kind}: {str(self.exc)[:200]} @ {self.site})"


def exc_site(exc):
    """innermost frame inside the repository's rdflib package, as 'file:function'"""
    tb = exc.__traceback__
    site = None
    inner = None
    while tb is not None:
        fn = tb.tb_frame.f_code.co_filename
        inner = (fn, tb.tb_frame.f_code.co_name)
        if "/rdflib/" in fn and "/verif/" not in fn:
            site = (fn.split("/rdflib/", 1)[1], tb.tb_frame.f_code.co_name)
        tb = tb.tb_next
    if site:
        return f"{site[0]}:{site[1]}"
    return None


def innermost_is_sut(exc):
    """True when the innermost frame of the traceback is in rdflib (or a library rdflib called), not in the harness."""
    tb = exc.__traceback__
    last = None
    while tb is not None:
        last = tb.tb_frame.f_code.co_filename
        tb = tb.tb_next
    if last is None:
        return False
    return os.path.realpath(last).startswith(VERIF) is False and exc_site(exc) is not None


def sut(fn, *a, **kw):
    """Call into rdflib. Returns the value, or a SutError wrapping whatever was raised.
    HarnessStepLimit (non-termination detector) is returned as SutError as well."""
    try:
        return fn(*a, **kw)
    except HarnessStepLimit as e:
        return SutError(e)
    except Exception as e:  # noqa: BLE001  (includes RecursionError)
        return SutError(e)


def is_err(x):
    return isinstance(x, SutError)


def digest(case) -> int:
    s = json.dumps(case, sort_keys=True, ensure_ascii=True, separators=(",", ":"))
    return int.from_bytes(hashlib.sha1(s.encode()).digest()[:8], "big")


class Known:
    """Switchboard for known-finding exclusion classes. `active` holds ids with status 'known'.
    Property code asks `K.skip(id, in_class)`: True means: this case is in the class of a recorded
    finding and the affected assertion must not be evaluated (counted in evidence)."""

    def __init__(self):
        self.active = set()
        self.counts = {}

    def skip(self, fid, in_class=True, out=None):
        if not in_class or fid not in self.active:
            return False
        self.counts[fid] = self.counts.get(fid, 0) + 1
        if out is not None and fid not in out.excluded:
            out.excluded.append(fid)
        return True


K = Known()


class Sub:
    """One sub-check of a property."""

    def __init__(self, name, strategy, run, cases, weight=1, max_shards=16, describe="", enum=None):
        self.name = name
        self.strategy = strategy  # fn(tier) -> hypothesis strategy yielding JSON-able case
        self.run = run  # fn(case) -> Out
        self.cases = cases  # {"quick": n, "thorough": n}  (total over all shards)
        self.weight = weight  # relative share of the 16 shards
        self.max_shards = max_shards
        self.describe = describe
        self.enum = enum  # optional fn(tier) -> iterator of cases: exhaustive enumeration instead of random generation


def counting_graph_class(base):
    """Graph subclass whose triples() counts calls and raises HarnessStepLimit beyond `limit`:
    a wall-clock-free detector for 'does not terminate' in code that keeps querying the graph."""

    class CountingGraph(base):
        _limit = None
        _calls = 0

        def arm(self, limit):
            self._limit = limit
            self._calls = 0

        def disarm(self):
            self._limit = None

        def triples(self, *a, **kw):
            if self._limit is not None:
                self._calls += 1
                if self._calls > self._limit:
                    raise HarnessStepLimit(f"more than {self._limit} graph reads")
            return super().triples(*a, **kw)

    return CountingGraph
