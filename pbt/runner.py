"""Runner: shards, seeds, collect->bucket->shrink, replay tier, known findings, evidence, exit codes.

exit 0: property held on everything explored (KNOWN-FINDING lines allowed)
exit 1: >=1 violation not listed in known_findings.jsonl (VIOLATION property=<ID> replay=<path>)
exit 2: harness error (never a violation)
"""
from __future__ import annotations

import argparse
import collections
import glob
import hashlib
import importlib
import json
import logging
import multiprocessing as mp
import os
import sys
import time
import traceback
import warnings

warnings.filterwarnings("ignore")
logging.disable(logging.CRITICAL)

from pbt.core import K, Out, VERIF, REPO, digest, innermost_is_sut, exc_site  # noqa: E402

N_WORKERS = int(os.environ.get("VERIF_WORKERS", "16"))
BUDGET = {"quick": 75.0, "thorough": 1500.0}  # seconds of exploration per shard (inconclusive beyond, never failure)
SHRINK_EVALS = {"quick": 400, "thorough": 4000}
MAX_REPORTED = 12


class StopCampaign(BaseException):
    pass


def hash32(*parts):
    h = hashlib.sha256("/".join(str(p) for p in parts).encode()).digest()
    return int.from_bytes(h[:4], "big")


def load_prop(pid):
    return importlib.import_module("pbt.props." + pid.lower())


def load_known(pid):
    path = os.path.join(VERIF, "known_findings.jsonl")
    out = []
    if os.path.exists(path):
        for line in open(path):
            line = line.strip()
            if not line or line.startswith("#"):
                continue
            d = json.loads(line)
            if d.get("property") == pid:
                out.append(d)
    return out


def find_sub(mod, name):
    for s in mod.SUBCHECKS:
        if s.name == name:
            return s
    raise KeyError(name)


def run_case(sub, case):
    """Runs one case; turns stray exceptions raised from inside rdflib into failures, others propagate (harness bug)."""
    try:
        out = sub.run(case)
    except StopCampaign:
        raise
    except RecursionError as e:
        if not innermost_is_sut(e):
            raise  # the harness's own recursion (an oracle on an input beyond its size): a harness error, never a violation
        out = Out()
        out.fail(f"exception|RecursionError|{exc_site(e)}", "RecursionError")
    except Exception as e:  # noqa: BLE001
        if innermost_is_sut(e):
            out = Out()
            out.fail(f"exception|{type(e).__name__}|{exc_site(e)}", "".join(traceback.format_exception(e))[-1500:])
        else:
            raise
    return out


def _account(st, case, out):
    st["evals"] += 1
    st["sub_evals"] += out.sub_evals
    for c in out.classes:
        st["classes"][c] += 1
    if out.nontrivial:
        d = digest(case)
        if d not in st["nontriv"]:
            st["nontriv"].add(d)
            if len(st["samples"]) < 2:
                st["samples"].append(case)
            js = len(json.dumps(case))
            if st["largest"] is None or js > st["largest"][0]:
                st["largest"] = (js, case)
    for (b, detail) in out.failures:
        st["nfail"] += 1
        sz = len(json.dumps(case))
        cur = st["fails"].get(b)
        if cur is None or sz < cur[0]:
            if cur is None and len(st["fails"]) >= 40:
                continue
            st["fails"][b] = (sz, case, detail)


def _job_result(st, subname, shard, exhaustive=False):
    samples = list(st["samples"])
    if st["largest"] is not None and st["largest"][1] not in samples:
        samples.append(st["largest"][1])
    return {
        "sub": subname, "shard": shard, "evals": st["evals"], "sub_evals": st["sub_evals"],
        "nontriv": list(st["nontriv"]), "classes": dict(st["classes"]),
        "fails": {b: (sz, case, det) for b, (sz, case, det) in st["fails"].items()},
        "samples": samples, "budget": st["budget"], "harness": st["harness"],
        "excluded": dict(K.counts), "nfail": st["nfail"], "exhaustive": exhaustive and not st["budget"] and not st["harness"],
    }


def enumerate_job(sub, shard, n_shards, tier, st, deadline, subname):
    try:
        for i, case in enumerate(sub.enum(tier)):
            if i % n_shards != shard:
                continue
            if time.time() > deadline:
                st["budget"] = True
                break
            _account(st, case, run_case(sub, case))
    except BaseException as e:  # noqa: BLE001
        st["harness"] = "".join(traceback.format_exception(e))[-4000:]
    return _job_result(st, subname, shard, exhaustive=True)


def explore_job(a):
    (pid, subname, shard, n_shards, n_cases, seed, tier, active, budget) = a
    warnings.filterwarnings("ignore")
    logging.disable(logging.CRITICAL)
    import hypothesis
    from hypothesis import HealthCheck, Phase, given, settings

    mod = load_prop(pid)
    sub = find_sub(mod, subname)
    K.active = set(active)
    K.counts = {}
    st = {
        "evals": 0, "sub_evals": 0, "nontriv": set(), "classes": collections.Counter(), "fails": {},
        "samples": [], "budget": False, "harness": None, "largest": None, "nfail": 0,
    }
    deadline = time.time() + budget
    if getattr(sub, "enum", None) is not None:
        # exhaustive sub-space: every n_shards-th case of a deterministic enumeration (no Hypothesis involved)
        return enumerate_job(sub, shard, n_shards, tier, st, deadline, subname)
    strat = sub.strategy(tier)

    def body(case):
        if time.time() > deadline:
            st["budget"] = True
            raise StopCampaign()
        _account(st, case, run_case(sub, case))

    test = given(strat)(body)
    test = settings(
        max_examples=n_cases, phases=[Phase.generate], database=None, deadline=None, derandomize=False,
        report_multiple_bugs=False,
        suppress_health_check=[HealthCheck.too_slow, HealthCheck.data_too_large, HealthCheck.large_base_example],
    )(test)
    test = hypothesis.seed(hash32(seed, pid, subname, shard))(test)
    try:
        test()
    except StopCampaign:
        pass
    except BaseException as e:  # noqa: BLE001
        st["harness"] = "".join(traceback.format_exception(e))[-4000:]
    return _job_result(st, subname, shard)


# ---------------------------------------------------------------- shrinking (ddmin over the JSON case)

def _paths(x, pre=()):
    if isinstance(x, list):
        yield pre, "list"
        for i, v in enumerate(x):
            yield from _paths(v, pre + (i,))
    elif isinstance(x, dict):
        for k, v in x.items():
            yield from _paths(v, pre + (k,))
    elif isinstance(x, int) and not isinstance(x, bool):
        yield pre, "int"
    elif isinstance(x, str):
        yield pre, "str"


def _get(x, path):
    for p in path:
        x = x[p]
    return x


def _set(x, path, v):
    x = json.loads(json.dumps(x))
    if not path:
        return v
    cur = x
    for p in path[:-1]:
        cur = cur[p]
    cur[path[-1]] = v
    return x


def shrink_case(sub, case, bucket, max_evals):
    """Greedy delta debugging on the JSON structure; keeps only candidates that still fail in the same bucket."""
    evals = [0]

    def fails(c):
        if evals[0] >= max_evals:
            return False
        evals[0] += 1
        try:
            out = run_case(sub, c)
        except BaseException:  # noqa: BLE001  harness trouble on a mangled case = not a candidate
            return False
        return any(b == bucket for b, _ in out.failures)

    protect = getattr(sub, "no_shrink_keys", ())
    best = case
    improved = True
    while improved and evals[0] < max_evals:
        improved = False
        for path, kind in sorted(_paths(best), key=lambda pk: (len(pk[0]), str(pk[0]))):
            if any(p in protect for p in path):
                continue
            try:
                cur = _get(best, path)
            except (KeyError, IndexError, TypeError):
                continue
            if kind == "list" and len(cur) > 0 and not isinstance(cur[0], str):
                # lists that start with a string are tagged tuples (terms, AST nodes, operations): their arity is fixed
                n = len(cur)
                chunk = max(1, n // 2)
                while chunk >= 1:
                    i = 0
                    while i < len(cur):
                        cand_list = cur[:i] + cur[i + chunk:]
                        cand = _set(best, path, cand_list)
                        if fails(cand):
                            best = cand
                            cur = cand_list
                            improved = True
                        else:
                            i += chunk
                    chunk //= 2
            elif kind == "int" and cur != 0:
                for v in (0, cur // 2):
                    if v != cur:
                        cand = _set(best, path, v)
                        if fails(cand):
                            best = cand
                            improved = True
                            break
            elif kind == "str" and len(cur) > 1 and getattr(sub, "shrink_strings", False):
                for v in (cur[: len(cur) // 2], cur[len(cur) // 2:], cur[1:], cur[:-1]):
                    cand = _set(best, path, v)
                    if fails(cand):
                        best = cand
                        improved = True
                        break
    return best


def shrink_job(a):
    (pid, subname, case, bucket, max_evals, active) = a
    warnings.filterwarnings("ignore")
    logging.disable(logging.CRITICAL)
    mod = load_prop(pid)
    sub = find_sub(mod, subname)
    K.active = set(active)
    try:
        return shrink_case(sub, case, bucket, max_evals)
    except BaseException:  # noqa: BLE001
        return case


# ---------------------------------------------------------------- replay

def replay_file(mod, path, active):
    r = json.load(open(path))
    sub = find_sub(mod, r["subcheck"])
    K.active = set(active)
    out = run_case(sub, r["case"])
    return r, out


def write_replay(pid, subname, seed, case, bucket, detail, tier):
    d = os.path.join(VERIF, "evidence", "replays", pid)
    os.makedirs(d, exist_ok=True)
    h = hashlib.sha1((subname + "|" + bucket).encode()).hexdigest()[:10]
    p = os.path.join(d, f"{subname}-{h}.json")
    with open(p, "w") as f:
        json.dump({"property": pid, "subcheck": subname, "seed": seed, "tier": tier, "bucket": bucket,
                   "detail": detail, "case": case}, f, indent=1, ensure_ascii=True, sort_keys=True)
    return p


def validate_evidence(ev):
    try:
        sys.path.insert(0, os.path.join(VERIF, ".deps"))
        import jsonschema  # type: ignore
    except Exception:  # noqa: BLE001
        jsonschema = None
    finally:
        if sys.path and sys.path[0].endswith(".deps"):
            sys.path.pop(0)
    schema_path = os.path.join(VERIF, "tools", "EVIDENCE.schema.json")
    if jsonschema is not None and os.path.exists(schema_path):
        jsonschema.validate(ev, json.load(open(schema_path)))
    else:
        c = ev["coverage"]
        assert isinstance(c["evaluations"], int) and c["evaluations"] >= 1
        assert isinstance(c["distinct_nontrivial"], int) and c["distinct_nontrivial"] >= 2
        assert isinstance(c["rule"], str) and isinstance(c["samples"], list) and len(c["samples"]) >= 1
        assert ev["tier"] in ("quick", "thorough") and isinstance(ev["seed"], int)


def main(argv=None):
    ap = argparse.ArgumentParser()
    ap.add_argument("pid")
    ap.add_argument("--tier", default=os.environ.get("VERIF_TIER", "quick"), choices=["quick", "thorough"])
    ap.add_argument("--replay")
    ap.add_argument("--subs", help="comma separated sub-check names (debugging)")
    ap.add_argument("--scale", type=float, default=float(os.environ.get("VERIF_SCALE", "1")))
    ap.add_argument("--no-evidence", action="store_true")
    args = ap.parse_args(argv)
    pid = args.pid.upper()
    seed = int(os.environ.get("VERIF_SEED", "1"))
    t0 = time.time()
    try:
        mod = load_prop(pid)
    except Exception:  # noqa: BLE001
        traceback.print_exc()
        print(f"HARNESS-ERROR property={pid} cannot import property module")
        return 2
    known = load_known(pid)
    active = sorted(k["id"] for k in known if k.get("status") == "known")

    # ---- single replay
    if args.replay:
        try:
            r, out = replay_file(mod, args.replay, [])  # exclusions off: replay exercises the case itself
        except Exception:  # noqa: BLE001
            traceback.print_exc()
            print(f"HARNESS-ERROR property={pid} replay failed to run")
            return 2
        if out.failures:
            kn = {k.get("bucket"): k for k in known if k.get("status") == "known"}
            rc = 0
            for b, det in out.failures:
                if b in kn and os.path.realpath(os.path.join(VERIF, kn[b]["probe"])) == os.path.realpath(args.replay):
                    print(f"KNOWN-FINDING: property={pid} {kn[b]['what']}")
                else:
                    print(f"  bucket={b}\n  detail={det}")
                    print(f"VIOLATION property={pid} replay={os.path.abspath(args.replay)}")
                    rc = 1
            return rc
        print(f"OK property={pid} replay passes")
        return 0

    violations = []  # (subname, bucket, detail, replay_path)
    known_reported = []
    stale = []
    harness_errors = []
    replays_run = 0

    # ---- replay tier (committed files)
    probe_of = {os.path.realpath(os.path.join(VERIF, k["probe"])): k for k in known if k.get("probe")}
    for path in sorted(glob.glob(os.path.join(VERIF, "replays", pid, "*.json"))):
        replays_run += 1
        try:
            r, out = replay_file(mod, path, [])
        except Exception as e:  # noqa: BLE001
            harness_errors.append(f"replay {path}: " + "".join(traceback.format_exception(e))[-1500:])
            continue
        k = probe_of.get(os.path.realpath(path))
        if k is not None and k.get("status") == "known":
            hit = [b for b, _ in out.failures if b == k.get("bucket")]
            other = [(b, d) for b, d in out.failures if b != k.get("bucket")]
            if hit:
                print(f"KNOWN-FINDING: property={pid} {k['what']}")
                known_reported.append(k["id"])
            else:
                stale.append(k["id"])
            for b, d in other:
                violations.append((r["subcheck"], b, d, path))
        else:
            for b, d in out.failures:
                violations.append((r["subcheck"], b, d, path))

    # ---- exploration
    subs = [s for s in mod.SUBCHECKS if not args.subs or s.name in args.subs.split(",")]
    tot_w = sum(s.weight for s in subs)
    jobs = []
    for s in subs:
        n_sh = max(1, min(s.max_shards, round(N_WORKERS * s.weight / tot_w)))
        n_cases = max(1, int(s.cases[args.tier] * args.scale))
        per = max(1, n_cases // n_sh)
        for i in range(n_sh):
            jobs.append((pid, s.name, i, n_sh, per, seed, args.tier, active, BUDGET[args.tier] * float(os.environ.get("VERIF_BUDGET_SCALE", "1"))))
    ctx = mp.get_context("fork")
    with ctx.Pool(min(N_WORKERS, len(jobs)), maxtasksperchild=1) as pool:
        results = pool.map(explore_job, jobs, chunksize=1)

    per_sub = {}
    nontriv = set()
    classes = collections.Counter()
    excluded = collections.Counter()
    samples = []
    fails = {}
    budget_reached = False
    evaluations = 0
    for r in results:
        ps = per_sub.setdefault(r["sub"], {"evaluations": 0, "comparisons": 0, "distinct_nontrivial": set(), "budget_reached": False, "shards": 0})
        ps["evaluations"] += r["evals"]
        ps["comparisons"] += r["sub_evals"]
        ps["distinct_nontrivial"].update(r["nontriv"])
        ps["budget_reached"] |= r["budget"]
        ps["exhaustive"] = ps.get("exhaustive", True) and r.get("exhaustive", False)
        ps["shards"] += 1
        evaluations += r["evals"]
        nontriv.update((r["sub"], d) for d in r["nontriv"])
        classes.update(r["classes"])
        excluded.update(r["excluded"])
        budget_reached |= r["budget"]
        if r["harness"]:
            harness_errors.append(f"{r['sub']}#{r['shard']}: {r['harness']}")
        for smp in r["samples"][:2]:
            if len(samples) < 6 or (len(samples) < 10 and not any(x["subcheck"] == r["sub"] for x in samples)):
                samples.append({"subcheck": r["sub"], "case": smp})
        for b, (sz, case, det) in r["fails"].items():
            key = (r["sub"], b)
            if key not in fails or sz < fails[key][0]:
                fails[key] = (sz, case, det)

    # ---- shrink new buckets and report
    todo = sorted(fails.items(), key=lambda kv: kv[1][0])[:MAX_REPORTED]
    if todo:
        sj = [(pid, sname, case, b, SHRINK_EVALS[args.tier], active) for (sname, b), (sz, case, det) in todo]
        with ctx.Pool(min(N_WORKERS, len(sj)), maxtasksperchild=1) as pool:
            shrunk = pool.map(shrink_job, sj, chunksize=1)
        for ((sname, b), (sz, case, det)), small in zip(todo, shrunk):
            # re-run for the detail of the shrunk case
            try:
                K.active = set(active)
                o2 = run_case(find_sub(mod, sname), small)
                det2 = next((d for bb, d in o2.failures if bb == b), det)
            except BaseException:  # noqa: BLE001
                small, det2 = case, det
            p = write_replay(pid, sname, seed, small, b, det2, args.tier)
            violations.append((sname, b, det2, p))
    for (sname, b), (sz, case, det) in sorted(fails.items(), key=lambda kv: kv[1][0])[MAX_REPORTED:]:
        p = write_replay(pid, sname, seed, case, b, det, args.tier)
        violations.append((sname, b, det, p))

    wall = time.time() - t0
    ev = {
        "property_id": pid, "tier": args.tier, "seed": seed, "level": "exploration",
        "coverage": {
            "evaluations": evaluations,
            "distinct_nontrivial": len(nontriv),
            "rule": getattr(mod, "RULE", ""),
            "samples": samples,
            "oracle_comparisons": sum(v["comparisons"] for v in per_sub.values()),
            "per_subcheck": {k: {"evaluations": v["evaluations"], "comparisons": v["comparisons"],
                                 "distinct_nontrivial": len(v["distinct_nontrivial"]),
                                 "budget_reached": v["budget_reached"], "shards": v["shards"],
                                 "exhaustive": bool(v.get("exhaustive"))} for k, v in per_sub.items()},
            "classes": dict(sorted(classes.items())),
            "excluded_by_known_finding": dict(excluded),
            "known_findings_reported": known_reported,
            "stale_known_findings": stale,
            "replays_run": replays_run,
            "buckets": [{"subcheck": s, "bucket": b, "replay": p} for s, b, d, p in violations],
            "budget_reached": budget_reached,
            "shards": len(jobs),
            "exhaustive": bool(per_sub) and all(v.get("exhaustive") for v in per_sub.values()),
        },
        "assumptions": getattr(mod, "ASSUMPTIONS", []),
        "wall_s": round(wall, 2),
        "violations": len(violations),
    }
    if hasattr(mod, "evidence_extra"):
        try:
            ev["coverage"].update(mod.evidence_extra(ev["coverage"]))
        except Exception:  # noqa: BLE001
            pass
    rc = 0
    if harness_errors:
        for h in harness_errors[:5]:
            print("HARNESS-ERROR " + h, file=sys.stderr)
        print(f"HARNESS-ERROR property={pid} {len(harness_errors)} shard(s)/replay(s) failed inside the harness (not a violation)")
        rc = 2
    if not args.no_evidence:
        try:
            if ev["coverage"]["evaluations"] >= 1 and ev["coverage"]["distinct_nontrivial"] >= 2:
                validate_evidence(ev)
            os.makedirs(os.path.join(VERIF, "evidence"), exist_ok=True)
            with open(os.path.join(VERIF, "evidence", f"{pid}.json"), "w") as f:
                json.dump(ev, f, indent=1, ensure_ascii=True, sort_keys=True)
        except Exception:  # noqa: BLE001
            traceback.print_exc()
            print(f"HARNESS-ERROR property={pid} evidence invalid")
            rc = 2
    for s, b, d, p in violations:
        print(f"  sub={s} bucket={b}\n    {d[:600]}")
        print(f"VIOLATION property={pid} replay={p}")
    print(f"{pid} tier={args.tier} seed={seed} evaluations={evaluations} comparisons={ev['coverage']['oracle_comparisons']} "
          f"nontrivial={len(nontriv)} violations={len(violations)} known={len(known_reported)} "
          f"excluded={dict(excluded)} budget_reached={budget_reached} wall={wall:.1f}s")
    if violations:
        return 1
    return rc


if __name__ == "__main__":
    sys.exit(main())
